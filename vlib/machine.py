"""Traced rule-based state machines.

Rules draw only plain data (indices into the pool, numbers, option dictionaries); every executed
rule is appended to ``self.trace`` as ``[rule_name, kwargs]``.  The trace is therefore a JSON
replay of the history: ``replay(cls, trace)`` re-executes it without Hypothesis, running the
invariants after every step exactly as the stateful engine does."""
import functools

from hypothesis.stateful import RuleBasedStateMachine, rule, invariant, precondition, initialize  # noqa: F401

from vlib.core import spec_hash

CURRENT_STATS = None
LAST_TRACE = None
TRACED = {}
INVARIANTS = {}


def inv(fn):
    """Marks a method as invariant for both the Hypothesis engine and plain replay."""
    INVARIANTS.setdefault((fn.__module__, fn.__qualname__.rsplit('.', 1)[0]), []).append(fn)
    return invariant()(fn)


def traced(fn):
    """Decorator (below @rule) recording the call in self.trace."""
    @functools.wraps(fn)
    def wrapper(self, **kwargs):
        self.trace.append([fn.__name__, kwargs])
        global LAST_TRACE
        LAST_TRACE = self.trace
        return fn(self, **kwargs)
    wrapper._traced_inner = fn
    TRACED[(fn.__module__, fn.__qualname__.rsplit('.', 1)[0], fn.__name__)] = fn
    return wrapper


class TraceMachine(RuleBasedStateMachine):
    """Base class.  Sub-classes implement setup(), info() -> dict(nt, cls) and invariants as
    methods named inv_*; rules are decorated with @rule(...) @traced."""

    def __init__(self):
        super().__init__()
        from vlib.util import reset_state
        reset_state()
        global LAST_TRACE
        self.trace = []
        LAST_TRACE = self.trace
        self.labels = []
        self.setup()

    def setup(self):
        pass

    def info(self):
        return {'nt': False, 'cls': self.labels}

    def teardown(self):
        from vlib.util import reset_state
        try:
            if CURRENT_STATS is not None and self.trace:
                inf = self.info()
                inf['steps'] = len(self.trace)
                CURRENT_STATS.record({'trace': self.trace}, inf)
        finally:
            reset_state()


def replay(cls, trace):
    """Re-execute a recorded trace on a fresh machine (no Hypothesis involved)."""
    import warnings
    m = cls.__new__(cls)
    RuleBasedStateMachine.__init__(m)
    from vlib.util import reset_state
    reset_state()
    m.trace = []
    m.labels = []
    m.setup()
    try:
        with warnings.catch_warnings():
            warnings.simplefilter('ignore')
            m.check_invariants_plain()
            for name, kwargs in trace:
                inner = None
                for k in cls.__mro__:
                    inner = TRACED.get((k.__module__, k.__qualname__, name))
                    if inner is not None:
                        break
                if inner is None:
                    raise RuntimeError('rule %s is not traced' % name)
                m.trace.append([name, kwargs])
                try:
                    inner(m, **kwargs)
                except IndexError as e:
                    if 'empty pool' in str(e):
                        continue    # a step whose precondition (non-empty pool) does not hold is a no-op
                    raise
                m.check_invariants_plain()
        return m.info()
    finally:
        reset_state()


def _check_invariants_plain(self):
    for k in type(self).__mro__:
        for f in INVARIANTS.get((k.__module__, k.__qualname__), ()):
            f(self)


TraceMachine.check_invariants_plain = _check_invariants_plain
