"""./check <PID> [--tier quick|thorough] [--replay FILE] [--sub NAME ...] [--examples N] [--shards N]

Starts one fresh Python process per (sub-property, shard) on a pool of VERIF_JOBS slots, merges
their JSON results, writes evidence/<PID>.json and prints VIOLATION / KNOWN-FINDING lines.
Exit codes: 0 held, 1 violation, 2 harness problem."""
import argparse, hashlib
import concurrent.futures as cf
import importlib
import json
import os
import subprocess
import sys
import tempfile
import time

HERE = os.path.dirname(os.path.dirname(os.path.abspath(__file__)))
sys.path.insert(0, HERE)

from vlib.core import dumps, spec_hash  # noqa: E402

PY = os.environ.get('VERIF_PYTHON', '/venv/bin/python')


def worker_env():
    env = dict(os.environ)
    env['PYTHONHASHSEED'] = '0'
    env['MPLBACKEND'] = 'Agg'
    env['OMP_NUM_THREADS'] = '1'
    env['OPENBLAS_NUM_THREADS'] = '1'
    env['MKL_NUM_THREADS'] = '1'
    env['PYTHONDONTWRITEBYTECODE'] = '1'
    env.setdefault('VERIF_REPO', '/repo')
    env['PYTHONPATH'] = env['VERIF_REPO'] + os.pathsep + HERE + os.pathsep + env.get('PYTHONPATH', '')
    return env


def run_job(args, timeout):
    out = args[-1]
    t0 = time.time()
    try:
        p = subprocess.run([PY, '-m', 'vlib.worker'] + [str(a) for a in args], cwd=HERE, env=worker_env(),
                           capture_output=True, text=True, timeout=timeout)
    except subprocess.TimeoutExpired:
        return {'status': 'harness_error', 'failure': {'exception': 'Timeout', 'message': 'worker exceeded %ds' % timeout},
                'wall_s': time.time() - t0, 'args': args[:-1]}
    if not os.path.exists(out):
        return {'status': 'harness_error', 'failure': {'exception': 'WorkerCrash', 'message': (p.stderr or p.stdout)[-3000:]},
                'wall_s': time.time() - t0, 'args': args[:-1]}
    res = json.load(open(out))
    os.unlink(out)
    res['args'] = args[:-1]
    return res


def load_findings():
    path = os.path.join(HERE, 'known_findings.json')
    if not os.path.exists(path):
        return []
    return json.load(open(path))['findings']


def main(argv=None):
    ap = argparse.ArgumentParser()
    ap.add_argument('pid')
    ap.add_argument('--tier', default=os.environ.get('VERIF_TIER', 'quick'), choices=['quick', 'thorough'])
    ap.add_argument('--replay')
    ap.add_argument('--sub', action='append')
    ap.add_argument('--examples', type=int)
    ap.add_argument('--shards', type=int)
    ap.add_argument('--no-evidence', action='store_true')
    a = ap.parse_args(argv)
    pid = a.pid.upper()
    tier = a.tier
    sv = (os.environ.get('VERIF_SEED', '1') or '1').strip()
    try:
        seed = int(sv, 0)
    except ValueError:
        # any other text still selects one reproducible run
        seed = int(hashlib.sha256(sv.encode()).hexdigest()[:15], 16)
    jobs = int(os.environ.get('VERIF_JOBS', str(os.cpu_count() or 4)))
    t0 = time.time()
    os.makedirs(os.path.join(HERE, 'evidence'), exist_ok=True)
    rdir = os.environ.get('VERIF_REPLAY_DIR', 'replays')
    os.makedirs(os.path.join(HERE, rdir), exist_ok=True)
    tmpd = tempfile.mkdtemp(prefix='verif_' + pid + '_')

    if a.replay:
        out = os.path.join(tmpd, 'replay.json')
        res = run_job(['--replay', pid, os.path.abspath(a.replay), out], 3600)
        if res['status'] == 'violation':
            print('replay fails: %s: %s' % (res['failure']['exception'], res['failure']['message'][:1500]))
            print('VIOLATION property=%s replay=%s' % (pid, a.replay))
            return 1
        if res['status'] == 'harness_error':
            print('HARNESS-ERROR', res['failure'])
            return 2
        print('replay passes', res.get('skip', ''))
        return 0

    sys.path.insert(0, os.environ.get('VERIF_REPO', '/repo'))
    mod = importlib.import_module('checks.' + pid.lower())
    subs = [s for s in mod.SUBS if not a.sub or s.name in a.sub]
    timeout = {'quick': 1500, 'thorough': 6 * 3600}[tier]

    joblist = []
    for s in subs:
        nsh = a.shards or s.shards[tier]
        n = a.examples or s.examples[tier]
        for sh in range(nsh):
            out = os.path.join(tmpd, '%s_%d.json' % (s.name, sh))
            joblist.append([pid, s.name, sh, nsh, seed, tier, n, out])
    findings = [f for f in load_findings() if f['property'] == pid]
    fjobs = []
    for f in findings:
        out = os.path.join(tmpd, 'kf_%s.json' % f['id'])
        fjobs.append((f, ['--replay', pid, os.path.join(HERE, f['replay']), out]))

    results = []
    fresults = []
    with cf.ThreadPoolExecutor(max_workers=jobs) as ex:
        futs = {ex.submit(run_job, j, timeout): ('job', j) for j in joblist}
        for f, j in fjobs:
            futs[ex.submit(run_job, j, timeout)] = ('finding', f)
        for fu in cf.as_completed(futs):
            kind, what = futs[fu]
            r = fu.result()
            if kind == 'job':
                results.append(r)
            else:
                fresults.append((what, r))
    try:
        os.rmdir(tmpd)
    except OSError:
        pass

    results.sort(key=lambda r: (r['args'][1], r['args'][2]))
    violations = []
    harness = []
    known_lines = []
    per_sub = {}
    nt_all = set()
    evaluations = 0
    samples = []
    classes = {}
    skipped = {}
    steps = 0
    for r in results:
        sname = r['args'][1]
        ps = per_sub.setdefault(sname, {'evaluations': 0, 'nt': set(), 'wall_s': 0.0, 'shards': 0, 'skipped': 0})
        st = r.get('stats') or {}
        ps['evaluations'] += st.get('evaluations', 0)
        ps['nt'].update(sname + ':' + h for h in st.get('nt_hashes', []))
        ps['wall_s'] = max(ps['wall_s'], r.get('wall_s', 0.0))
        ps['shards'] += 1
        ps['skipped'] += sum(st.get('skipped', {}).values())
        evaluations += st.get('evaluations', 0)
        steps += st.get('steps', 0)
        nt_all.update(sname + ':' + h for h in st.get('nt_hashes', []))
        for c, k in st.get('classes', {}).items():
            classes[sname + '/' + c] = classes.get(sname + '/' + c, 0) + k
        for c, k in st.get('skipped', {}).items():
            skipped[sname + '/' + c] = skipped.get(sname + '/' + c, 0) + k
        if r['args'][2] == 0:
            for sp in st.get('samples', [])[:2]:
                samples.append({'sub': sname, 'spec': sp})
        if r['status'] == 'violation':
            violations.append(r)
        elif r['status'] == 'harness_error':
            harness.append(r)

    # too many skipped cases in a sub-property => the generator must be fixed.  The fraction of skipped cases depends on
    # the seed (Hypothesis explores the neighbourhood of a case, so skips cluster): the per-sub figure is the expected
    # ceiling (a NOTE when exceeded, visible in the evidence), a harness error is raised only when most cases were lost.
    for s in subs:
        ps = per_sub.get(s.name)
        if ps and ps['evaluations'] >= 20 and ps['skipped'] > s.max_skip_frac * ps['evaluations']:
            print('NOTE %s/%s: %d of %d cases skipped (expected at most %d%%)'
                  % (pid, s.name, ps['skipped'], ps['evaluations'], round(100 * s.max_skip_frac)))
        if ps and ps['evaluations'] >= 20 and ps['skipped'] > max(0.6, s.max_skip_frac) * ps['evaluations']:
            harness.append({'status': 'harness_error', 'args': [pid, s.name],
                            'failure': {'exception': 'TooManySkipped', 'message': '%d of %d cases skipped' % (ps['skipped'], ps['evaluations'])}})

    rc = 0
    seen_findings = []
    for f, r in fresults:
        if r['status'] == 'harness_error':
            harness.append(r)
            continue
        if f['status'] == 'known':
            if r['status'] == 'violation':
                line = 'KNOWN-FINDING: property=%s %s %s' % (pid, f['id'], f['what'])
                known_lines.append(line)
                seen_findings.append({'id': f['id'], 'reproduces': True})
            else:
                print('NOTE: known finding %s does not reproduce any more on this tree' % f['id'])
                seen_findings.append({'id': f['id'], 'reproduces': False})
        else:  # fixed: plain regression check
            if r['status'] == 'violation':
                print('regression of fixed finding %s: %s' % (f['id'], r['failure']['message'][:800]))
                print('VIOLATION property=%s replay=%s' % (pid, f['replay']))
                rc = 1
            seen_findings.append({'id': f['id'], 'fixed': True, 'regressed': r['status'] == 'violation'})

    for line in known_lines:
        print(line)

    nviol = 0
    reported = set()
    for r in violations:
        fl = r['failure']
        spec = fl.get('spec')
        h = spec_hash(spec)
        path = os.path.join(rdir, '%s-%s-%s.json' % (pid, r['args'][1], h))
        if path in reported:
            continue
        reported.add(path)
        with open(os.path.join(HERE, path), 'w') as fh:
            fh.write(dumps({'property': pid, 'sub': r['args'][1], 'spec': spec, 'exception': fl['exception'],
                            'message': fl['message'], 'innermost_pyerrors_frame': fl.get('innermost_pyerrors_frame'),
                            'seed': seed, 'tier': tier, 'traceback': fl.get('traceback')}, indent=1))
        print('violation in %s/%s: %s: %s' % (pid, r['args'][1], fl['exception'], fl['message'][:1200].replace('\n', ' ')))
        print('VIOLATION property=%s replay=%s' % (pid, path))
        nviol += 1
        rc = 1

    for r in harness:
        fl = r.get('failure', {})
        print('HARNESS-ERROR %s %s: %s: %s' % (pid, r.get('args', ['', ''])[1] if len(r.get('args', [])) > 1 else '', fl.get('exception'), str(fl.get('message'))[:1500]))
        if fl.get('traceback'):
            print(fl['traceback'][-1500:])
        if rc == 0:
            rc = 2

    wall = time.time() - t0
    if not a.no_evidence and not a.sub:
        level = getattr(mod, 'LEVEL', 'exploration')
        cov = {
            'evaluations': evaluations,
            'distinct_nontrivial': len(nt_all),
            'rule': mod.RULE,
            'samples': samples[:8] if samples else [{'note': 'no non-trivial sample recorded'}],
            'subproperties': {k: {'evaluations': v['evaluations'], 'distinct_nontrivial': len(v['nt']),
                                  'shards': v['shards'], 'skipped': v['skipped'], 'max_shard_wall_s': round(v['wall_s'], 1),
                                  'doc': next((s.doc for s in subs if s.name == k), '')}
                              for k, v in per_sub.items()},
            'classes': dict(sorted(classes.items())),
            'skipped': skipped,
            'known_findings_seen': seen_findings,
            'harness_errors': len(harness),
        }
        if steps:
            cov['machine_steps'] = steps
        if getattr(mod, 'EXHAUSTIVE', None):
            cov['exhaustive_parts'] = mod.EXHAUSTIVE
        ev = {
            'property_id': pid, 'tier': tier, 'seed': seed, 'level': level,
            'coverage': cov,
            'assumptions': getattr(mod, 'ASSUMPTIONS', []),
            'wall_s': round(wall, 2),
            'violations': nviol + sum(1 for s in seen_findings if s.get('regressed')),
        }
        with open(os.path.join(HERE, 'evidence', pid + '.json'), 'w') as fh:
            fh.write(dumps(ev, indent=1))
    print('%s tier=%s seed=%d: %d cases, %d distinct non-trivial, %d violations, %d known findings, %d harness errors, %.1fs'
          % (pid, tier, seed, evaluations, len(nt_all), nviol, len(known_lines), len(harness), wall))
    return rc


if __name__ == '__main__':
    try:
        _rc = main()
    except SystemExit:
        raise
    except BaseException:
        # a failure of the machinery itself is never reported as a violation (exit status 1)
        import traceback
        traceback.print_exc()
        print('HARNESS-ERROR: unhandled exception in the runner')
        _rc = 2
    sys.exit(_rc)
