"""Structural invariant of C04: what every observable handed out by the library must look like."""
import numbers

import numpy as np

from vlib.core import Violation


def _is_real_scalar(v):
    if isinstance(v, (bool, np.bool_)):
        return False
    if isinstance(v, (complex, np.complexfloating)):
        return False
    if isinstance(v, np.ndarray):
        return False
    return isinstance(v, (numbers.Real, np.floating, np.integer))


def wellformed_obs(o, what=''):
    import pyerrors as pe
    pre = (what + ': ') if what else ''
    if not isinstance(o, pe.Obs):
        raise Violation(pre + 'expected an Obs, got %s' % type(o).__name__)
    v = o.value
    if not _is_real_scalar(v) or not isinstance(v, (float, np.floating)):
        raise Violation(pre + 'central value %r (%s) is not a real floating-point number' % (v, type(v).__name__))
    names = o.names
    if not all(isinstance(n, str) for n in names):
        raise Violation(pre + 'non-string name in %r' % (names,))
    if len(set(names)) != len(names):
        raise Violation(pre + 'names are not unique: %r' % (names,))
    cov = list(o.covobs.keys())
    mc = [n for n in names if n not in o.covobs]
    if mc != sorted(mc):
        raise Violation(pre + 'Monte-Carlo chain names are not sorted: %r' % (mc,))
    if sorted(cov) != sorted(n for n in names if n in o.covobs) or set(cov) - set(names):
        raise Violation(pre + 'covariance inputs %r are not all listed in names %r' % (cov, names))
    for c in cov:
        if '|' in c:
            raise Violation(pre + "covariance name %r contains '|'" % c)
    if set(cov) & set(o.deltas):
        raise Violation(pre + 'name used both for a chain and a covariance input: %r' % (set(cov) & set(o.deltas)))
    for attr in ('deltas', 'idl', 'shape', 'r_values'):
        keys = sorted(getattr(o, attr).keys())
        if keys != sorted(mc):
            raise Violation(pre + '%s has keys %r, chains are %r' % (attr, keys, mc))
    tot = 0
    for n in mc:
        il = o.idl[n]
        if isinstance(il, range):
            if il.step <= 0:
                raise Violation(pre + 'configuration range of %s has step %d' % (n, il.step))
            lst = list(il)
        elif isinstance(il, list):
            lst = il
            if not all(isinstance(c, (int, np.integer)) and not isinstance(c, (bool, np.bool_)) for c in lst):
                raise Violation(pre + 'configuration list of %s contains non-integers: %r' % (n, lst[:5]))
        else:
            raise Violation(pre + 'configuration list of %s is a %s' % (n, type(il).__name__))
        if len(lst) == 0:
            raise Violation(pre + 'chain %s is empty' % n)
        if any(b <= a for a, b in zip(lst, lst[1:])):
            raise Violation(pre + 'configuration numbers of %s are not strictly increasing: %r' % (n, lst[:8]))
        if len(lst) > 1:
            equally = len(set(b - a for a, b in zip(lst, lst[1:]))) == 1
            if equally != isinstance(il, range):
                raise Violation(pre + 'configuration list of %s is held as %s although equally spaced = %s' % (n, type(il).__name__, equally))
        d = o.deltas[n]
        if not isinstance(d, np.ndarray) or d.ndim != 1:
            raise Violation(pre + 'fluctuations of %s are not a 1-d array (%s)' % (n, type(d).__name__))
        if d.dtype.kind != 'f':
            raise Violation(pre + 'fluctuations of %s have dtype %s' % (n, d.dtype))
        if not (len(lst) == len(d) == o.shape[n]):
            raise Violation(pre + 'chain %s: %d configuration numbers, %d fluctuations, recorded length %r' % (n, len(lst), len(d), o.shape[n]))
        if not _is_real_scalar(o.r_values[n]):
            raise Violation(pre + 'replica mean of %s is %r' % (n, o.r_values[n]))
        tot += len(lst)
    if o.N != tot:
        raise Violation(pre + 'sample count N = %r, sum of chain lengths = %d' % (o.N, tot))
    want_e = sorted(set(n.split('|')[0] for n in names))
    if sorted(o.e_names) != want_e:
        raise Violation(pre + "e_names %r are not the texts before the first '|' of the names %r" % (o.e_names, names))
    want_mc = sorted(set(n.split('|')[0] for n in mc))
    if sorted(o.mc_names) != want_mc:
        raise Violation(pre + "mc_names %r are not the ensembles %r of the Monte-Carlo chains" % (o.mc_names, want_mc))
    ec = o.e_content
    for e, reps in ec.items():
        for r in reps:
            if r.split('|')[0] != e:
                raise Violation(pre + 'replica %r grouped under ensemble %r' % (r, e))
    if sorted(r for reps in ec.values() for r in reps) != sorted(names):
        raise Violation(pre + 'e_content %r does not partition names %r' % (ec, names))
    for k, c in o.covobs.items():
        if c.name != k:
            raise Violation(pre + 'covariance input stored under %r is named %r' % (k, c.name))
        m = np.asarray(c.cov)
        if m.ndim != 2 or m.shape[0] != m.shape[1]:
            raise Violation(pre + 'covariance of %s has shape %r' % (k, m.shape))
        if not np.array_equal(m, m.T):
            raise Violation(pre + 'covariance of %s is not symmetric' % k)
        ev = np.linalg.eigvalsh(m)
        if ev.min() < -1e-12 * max(1.0, abs(ev.max())):
            raise Violation(pre + 'covariance of %s is indefinite (eigenvalues %r)' % (k, ev.tolist()))
        g = np.asarray(c.grad)
        if g.shape != (m.shape[0], 1):
            raise Violation(pre + 'gradient of %s has shape %r, expected %r' % (k, g.shape, (m.shape[0], 1)))
        if g.dtype.kind not in 'fi':
            raise Violation(pre + 'gradient of %s has dtype %s' % (k, g.dtype))
    if not isinstance(o.reweighted, (bool, np.bool_)):
        raise Violation(pre + 'reweighted flag is %r' % (o.reweighted,))


def wellformed_any(x, what='', allow_number=False):
    """Obs, CObs (parts: well-formed Obs or real numbers) or arrays / lists of these."""
    import pyerrors as pe
    if isinstance(x, pe.Obs):
        return wellformed_obs(x, what)
    if isinstance(x, pe.CObs):
        for nm, part in (('real', x.real), ('imag', x.imag)):
            if isinstance(part, pe.Obs):
                wellformed_obs(part, what + ' (%s part)' % nm)
            elif not _is_real_scalar(part):
                raise Violation('%s: %s part of CObs is %r (%s)' % (what, nm, part, type(part).__name__))
        return
    if isinstance(x, (list, tuple, np.ndarray)):
        for k, y in enumerate(np.asarray(x, dtype=object).ravel()):
            wellformed_any(y, what + '[%d]' % k, allow_number)
        return
    if allow_number and _is_real_scalar(x):
        return
    raise Violation('%s: result is a %s (%r), not an observable' % (what, type(x).__name__, x))
