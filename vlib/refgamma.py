"""ref_gamma: loop-based reference of the Gamma method (Wolff hep-lat/0306017, Schaefer et al.
arXiv:1009.5228), written from the papers and the statement of C02.  No FFT, no vectorisation.

Conventions adopted from the documentation where the papers leave a choice:
* lags are counted in units of the common spacing `gap` of the ensemble (minimum spacing over replicas,
  which must divide all spacings);
* the largest admissible lag is w_max = max_replica(span in units of gap) // 2, where the span of an
  equally spaced replica is len*step/gap and that of an irregular one is the number of grid slots
  between first and last configuration ((last-first)/gap + 1);
* delta-rho(i) uses the Luescher sum truncated at k <= w_max-1-i.
The function also returns the decision margins (the quantities whose sign decides the window) so that the
caller can recognise exact ties, where rounding legitimately decides.
"""
import math

import numpy as np

TINY = 10 * np.finfo(float).tiny


def common_gap(idls):
    gaps = []
    for idl in idls:
        gaps.append(min(b - a for a, b in zip(idl, idl[1:])))
    gap = min(gaps)
    if any(g % gap for g in gaps):
        raise ValueError('no common spacing')
    return gap


def span(idl, gap):
    d = set(b - a for a, b in zip(idl, idl[1:]))
    if len(d) == 1:
        return len(idl) * d.pop() // gap
    return (idl[-1] - idl[0]) // gap + 1


def ref_gamma_ensemble(reps, S=2.0, tau_exp=0.0, N_sigma=1.0):
    """reps: list of (idl list of int, fluctuation array) of one ensemble.  Returns dict."""
    idls = [list(map(int, r[0])) for r in reps]
    gap = common_gap(idls)
    grids = []
    for idl, d in zip(idls, [r[1] for r in reps]):
        L = (idl[-1] - idl[0]) // gap + 1
        arr = [None] * L
        for c, x in zip(idl, d):
            arr[(c - idl[0]) // gap] = float(x)
        grids.append(arr)
    wmax = max(span(i, gap) for i in idls) // 2
    N = sum(len(i) for i in idls)
    G = []
    for t in range(wmax):
        num, cnt = 0.0, 0
        for arr in grids:
            for i in range(len(arr) - t):
                if arr[i] is not None and arr[i + t] is not None:
                    num += arr[i] * arr[i + t]
                    cnt += 1
        G.append(num / max(cnt, 1))
    out = {'wmax': wmax, 'N': N, 'gap': gap, 'gamma0': G[0] if G else 0.0, 'margins': []}
    if wmax == 0 or abs(G[0]) < TINY:
        out.update(tauint=0.5, dtauint=0.0, dvalue=0.0, ddvalue=0.0, window=0, rho=[0.0] * wmax, drho={}, degenerate=True)
        return out
    rho = [g / G[0] for g in G]
    acc, nt = 0.5, []
    for W in range(wmax):
        if W > 0:
            acc += rho[W]
        nt.append(acc)
    ntc = [x if x > 0.5 else 0.5 + np.finfo(float).eps for x in nt]
    ndt = [0.0] + [ntc[W] * 2 * math.sqrt(abs(W + 0.5 - ntc[W]) / N) for W in range(1, wmax)]

    def drho(i):
        s = 0.0
        for k in range(1, wmax - i):
            s += (rho[k + i] + rho[abs(k - i)] - 2 * rho[i] * rho[k]) ** 2
        return math.sqrt(s / N)

    out.update(rho=rho, n_tauint=ntc, n_dtauint=ndt)
    dr = {}
    margins = []
    res = None
    if tau_exp > 0:
        if wmax // 2 <= 1:
            raise ValueError('Need at least 8 samples for tau_exp error analysis')
        dr[1] = drho(1)
        for n in range(1, wmax // 2):
            dr[n + 1] = drho(n + 1)
            m = rho[n] - N_sigma * dr[n]
            margins.append(m)
            if m < 0 or n >= wmax // 2 - 2:
                tau = ntc[n] * (1 + (2 * n + 1) / N) / (1 + 1 / N) + tau_exp * abs(rho[n + 1])
                dtau = math.sqrt(ndt[n] ** 2 + tau_exp ** 2 * dr[n + 1] ** 2)
                dv = math.sqrt(2 * tau * G[0] * (1 + 1 / N) / N)
                res = (tau, dtau, dv, dv * math.sqrt((n + 0.5) / N), n)
                break
    elif S == 0:
        dv = math.sqrt(G[0] / (N - 1))
        res = (0.5, 0.0, dv, dv * math.sqrt(0.5 / N), 0)
    else:
        for n in range(1, wmax):
            x = ntc[n]
            tw = S / math.log((2 * x + 1) / (2 * x - 1))
            e1, e2 = math.exp(-n / tw), tw / math.sqrt(n * N)
            g = e1 - e2
            # decision margin relative to the larger of the two terms when both are small (tiny S: e1 underflows, e2 ~ S;
            # the sign is exact although |g| is tiny), absolute otherwise
            margins.append(g / min(1.0, max(e1, e2, 1e-300)))
            if abs(nt[n] - 0.5) < 1e-10:
                # tau_int(n) sits on the clipping threshold: the sign of g must not depend on which side
                for xa in (0.5 + np.finfo(float).eps, 0.5 + 2e-10):
                    twa = S / math.log((2 * xa + 1) / (2 * xa - 1))
                    ga = math.exp(-n / twa) - twa / math.sqrt(n * N)
                    if (ga < 0) != (g < 0):
                        margins.append(0.0)
            if g < 0 or n >= wmax - 1:
                dr[n] = drho(n)
                tau = x * (1 + (2 * n + 1) / N) / (1 + 1 / N)
                dv = math.sqrt(2 * tau * G[0] * (1 + 1 / N) / N)
                res = (tau, ndt[n], dv, dv * math.sqrt((n + 0.5) / N), n)
                break
    if res is None:
        # no admissible window (w_max too small for the requested analysis): nothing is defined
        out.update(undefined=True, drho=dr, margins=margins)
        return out
    out.update(tauint=res[0], dtauint=res[1], dvalue=res[2], ddvalue=res[3], window=res[4], drho=dr, margins=margins)
    return out


def min_margin(r):
    m = [abs(x) for x in r.get('margins', [])]
    return min(m) if m else 1.0


def ref_gamma(chains, covparts=(), S=None, tau_exp=None, N_sigma=None):
    """chains: {replica name: (idl, fluctuations)} ; covparts: [(cov, grad)] ;
    S, tau_exp, N_sigma: {ensemble: value}.  Returns (per-ensemble results, dvalue, ddvalue)."""
    ens = {}
    for n in sorted(chains):
        ens.setdefault(n.split('|')[0], []).append(chains[n])
    per = {}
    tot, dd = 0.0, 0.0
    for e, reps in ens.items():
        r = ref_gamma_ensemble(reps, S[e], tau_exp[e], N_sigma[e])
        per[e] = r
        if r.get('undefined'):
            continue
        tot += r['dvalue'] ** 2
        dd += (r['dvalue'] * r['ddvalue']) ** 2
    for cov, g in covparts:
        g = np.asarray(g, dtype=float).reshape(-1, 1)
        tot += float((g.T @ np.asarray(cov, dtype=float) @ g).item())
    dv = math.sqrt(tot)
    ddv = 0.0 if dv == 0.0 else math.sqrt(dd) / dv
    return per, dv, ddv
