"""openQCD reweighting-factor files (ms1.dat / rwms.dat) of versions 1.4, 1.6 and 2.0: writer, independent parser,
expectation builder and the call into pyerrors.input.openQCD.read_rwms.

Layout (little endian, int = 4 bytes, double = 8 bytes), as the reader and the two sample files agree on it:
  1.4  nrw | nsrc[nrw]                         | records
  1.6  nrw | nfct[nrw] | nsrc[nrw]             | records
  2.0  2*nrw | nfct[nrw] | nsrc[nrw] | 0       | records
  record 1.4/1.6: cfg | for irw: for ifct (1.4: one): sqn[nsrc] doubles, lnr[nsrc] doubles
  record 2.0    : cfg | for irw: array(sqn), array(lnr);  array = d=2 | n=(nfct, 2*nsrc) | size=8 | nfct*2*nsrc doubles
                  (every number is a quadruple-precision pair (high, low); the reader uses the high part)
Documented reduction: W_irw(cfg) = prod_ifct  mean_isrc exp(-lnr[irw][ifct][isrc]).

fs (plain data):  {'fmt': 'rwms', 'version', 'prefix', 'postfix', 'nfct': [..], 'nsrc': [..], 'seed',
                   'reps': [{'r': replica number, 'first': first stored cfg, 'spacing': int, 'n': number of records}],
                   'extra': [file names that must be ignored]}
call (plain data): {'use_postfix': bool, 'files': None | [indices into reps, in the order handed to the reader],
                   'names': None | [names, parallel to the file list], 'r_start': None | [cfg|None ...], 'r_stop': ...,
                   'r_step': None | int, 'listing': mode, 'print_err': bool}
"""
import math
import struct

import numpy as np

from vlib.formats import common

SAMPLES = {'1.6': '/repo/tests/data/openqcd_test/sfqcdr1.rwms.dat',
           '2.0': '/repo/tests/data/openqcd_test/openqcd2r1.ms1.dat'}


# ------------------------------------------------------------------------------------------------------
# data model: header dict + list of records {'cfg': int, 'sqn': [irw][ifct][isrc], 'lnr': same, ('lo_*' for 2.0)}

def filename(fs, rep):
    return '%sr%d%s.dat' % (fs['prefix'], rep['r'], ('.' + fs['postfix']) if fs['postfix'] else '')


def stored_cfgs(rep):
    return [rep['first'] + rep['spacing'] * i for i in range(rep['n'])]


def record_data(fs, rep, cfg):
    """The numbers of one record: dict 'sqn' / 'lnr' -> [irw][ifct] -> array(nsrc)."""
    out = {'cfg': cfg, 'sqn': [], 'lnr': [], 'sqn_lo': [], 'lnr_lo': []}
    for irw, (nf, ns) in enumerate(zip(fs['nfct'], fs['nsrc'])):
        sq = common.values(fs['seed'], rep['r'], cfg, 'sqn%d' % irw, nf * ns, 100.0, 2000.0).reshape(nf, ns)
        ln = common.values(fs['seed'], rep['r'], cfg, 'lnr%d' % irw, nf * ns, -0.7, 0.7).reshape(nf, ns)
        out['sqn'].append(sq)
        out['lnr'].append(ln)
        out['sqn_lo'].append(sq * 2.0 ** -56)
        out['lnr_lo'].append(ln * 2.0 ** -56)
    return out


def pack_header(version, nfct, nsrc):
    nrw = len(nsrc)
    if version == '1.4':
        return struct.pack('<i', nrw) + struct.pack('<%di' % nrw, *nsrc)
    if version == '1.6':
        return struct.pack('<i', nrw) + struct.pack('<%di' % nrw, *nfct) + struct.pack('<%di' % nrw, *nsrc)
    if version == '2.0':
        return (struct.pack('<i', 2 * nrw) + struct.pack('<%di' % nrw, *nfct) + struct.pack('<%di' % nrw, *nsrc)
                + struct.pack('<i', 0))
    raise ValueError(version)


def pack_record(version, rec):
    b = [struct.pack('<i', rec['cfg'])]
    for irw in range(len(rec['lnr'])):
        if version == '2.0':
            for key in ('sqn', 'lnr'):
                hi = np.asarray(rec[key][irw], dtype=float)
                lo = np.asarray(rec[key + '_lo'][irw], dtype=float)
                nf, ns = hi.shape
                inter = np.empty((nf, 2 * ns))
                inter[:, 0::2] = hi
                inter[:, 1::2] = lo
                b.append(struct.pack('<i', 2) + struct.pack('<2i', nf, 2 * ns) + struct.pack('<i', 8))
                b.append(struct.pack('<%dd' % (2 * nf * ns), *inter.ravel()))
        else:
            hi_s = np.asarray(rec['sqn'][irw], dtype=float)
            hi_l = np.asarray(rec['lnr'][irw], dtype=float)
            for ifct in range(hi_s.shape[0]):
                b.append(struct.pack('<%dd' % hi_s.shape[1], *hi_s[ifct]))
                b.append(struct.pack('<%dd' % hi_l.shape[1], *hi_l[ifct]))
    return b''.join(b)


def pack_file(version, nfct, nsrc, records):
    """-> (bytes, header length, [(start, end, cfg)])"""
    head = pack_header(version, nfct, nsrc)
    parts = [head]
    ext = []
    pos = len(head)
    for rec in records:
        r = pack_record(version, rec)
        ext.append((pos, pos + len(r), rec['cfg']))
        pos += len(r)
        parts.append(r)
    return b''.join(parts), len(head), ext


def parse_file(data, version):
    """Independent parser (used for the fidelity self-check): bytes -> (nfct, nsrc, records)."""
    pos = 0

    def rd(fmt):
        nonlocal pos
        v = struct.unpack_from('<' + fmt, data, pos)
        pos += struct.calcsize('<' + fmt)
        return v
    nrw, = rd('i')
    if version == '2.0':
        assert nrw % 2 == 0
        nrw //= 2
    nfct = list(rd('%di' % nrw)) if version in ('1.6', '2.0') else [1] * nrw
    nsrc = list(rd('%di' % nrw))
    if version == '2.0':
        z, = rd('i')
        assert z == 0
    recs = []
    while pos < len(data):
        cfg, = rd('i')
        rec = {'cfg': cfg, 'sqn': [], 'lnr': [], 'sqn_lo': [], 'lnr_lo': []}
        for irw in range(nrw):
            if version == '2.0':
                for key in ('sqn', 'lnr'):
                    d, = rd('i')
                    n = rd('%di' % d)
                    size, = rd('i')
                    assert d == 2 and size == 8 and n == (nfct[irw], 2 * nsrc[irw]), (d, n, size)
                    arr = np.array(rd('%dd' % (n[0] * n[1]))).reshape(n)
                    rec[key].append(arr[:, 0::2])
                    rec[key + '_lo'].append(arr[:, 1::2])
            else:
                sq, ln = [], []
                for ifct in range(nfct[irw]):
                    sq.append(rd('%dd' % nsrc[irw]))
                    ln.append(rd('%dd' % nsrc[irw]))
                rec['sqn'].append(np.array(sq))
                rec['lnr'].append(np.array(ln))
        recs.append(rec)
    assert pos == len(data)
    return nfct, nsrc, recs


def self_check():
    """Writer fidelity: parse each sample file with parse_file, write it again, demand the identical bytes."""
    out = {}
    for version, path in SAMPLES.items():
        data = open(path, 'rb').read()
        nfct, nsrc, recs = parse_file(data, version)
        again, hl, ext = pack_file(version, nfct, nsrc, recs)
        assert again == data, 'rwms writer does not reproduce %s' % path
        assert ext[-1][1] == len(data)
        out[version] = {'bytes': len(data), 'records': len(recs), 'nfct': nfct, 'nsrc': nsrc}
    return out


# ------------------------------------------------------------------------------------------------------

def build(fs):
    out = common.FileSet()
    nfct = fs['nfct'] if fs['version'] != '1.4' else [1] * len(fs['nsrc'])
    for i, rep in enumerate(fs['reps']):
        recs = [record_data(dict(fs, nfct=nfct), rep, c) for c in stored_cfgs(rep)]
        data, hl, ext = pack_file(fs['version'], nfct, fs['nsrc'], recs)
        out.add(filename(fs, rep), data, hl, ext, i)
    for j, name in enumerate(fs.get('extra', [])):
        out.add(name, b'\x07\x00\x00\x00' + bytes(range(37 + j)))
    return out


def normalise(stored):
    """Stored numbers -> configuration numbers as read_rwms documents it: number // spacing; if that starts above 1
    and the spacing is larger than one the first measurement is taken to belong to configuration 1 (warning)."""
    d = stored[-1] - stored[-2]
    c = [s // d for s in stored]
    if c[0] > 1 and d > 1:
        c = [x - (c[0] - 1) for x in c]
    return c


def auto_name(fs, rep):
    n = filename(fs, rep)
    for suf in ('.dat', '.rwms', '.ms1'):
        if n.endswith(suf):
            n = n[:-len(suf)]
    i = n.index('r')
    return n[:i] + '|' + n[i:]


def file_order(fs, call):
    """Indices into fs['reps'] in the order of the reader's file list: explicit `files`, else by replica number."""
    if call.get('files') is not None:
        return list(call['files'])
    return sorted(range(len(fs['reps'])), key=lambda i: fs['reps'][i]['r'])


def factor(rec, irw, nfct):
    w = 1.0
    for ifct in range(nfct[irw]):
        x = rec['lnr'][irw][ifct]
        w *= math.fsum(math.exp(-v) for v in x) / len(x)
    return w


def expected(fs, call, limit=None):
    """-> {irw: {name: {cfg: W}}}.  limit = {index into reps: k}: only the first k records of that file exist."""
    nfct = fs['nfct'] if fs['version'] != '1.4' else [1] * len(fs['nsrc'])
    order = file_order(fs, call)
    step = call.get('r_step') or 1
    out = {irw: {} for irw in range(len(fs['nsrc']))}
    for pos, i in enumerate(order):
        rep = fs['reps'][i]
        stored = stored_cfgs(rep)
        if limit and i in limit:
            stored = stored[:limit[i]]
        cfgs = normalise(stored)
        name = call['names'][pos] if call.get('names') is not None else auto_name(fs, rep)
        a = call['r_start'][pos] if call.get('r_start') is not None else None
        b = call['r_stop'][pos] if call.get('r_stop') is not None else None
        ia = cfgs.index(a) if a else 0
        ib = cfgs.index(b) if b is not None else len(cfgs) - 1
        sel = list(range(ia, ib + 1, step))
        recs = {k: record_data(dict(fs, nfct=nfct), rep, stored[k]) for k in sel}
        for irw in out:
            out[irw][name] = {cfgs[k]: factor(recs[k], irw, nfct) for k in sel}
    return out


def run(path, fs, call):
    """Calls read_rwms; -> {irw: Obs}."""
    import pyerrors.input.openQCD as oq
    kw = {}
    if call.get('use_postfix') and fs['postfix']:
        kw['postfix'] = fs['postfix']
    if call.get('files') is not None:
        kw['files'] = [filename(fs, fs['reps'][i]) for i in call['files']]
    for k in ('r_start', 'r_stop'):
        if call.get(k) is not None:
            kw[k] = list(call[k])
    if call.get('r_step') is not None:
        kw['r_step'] = call['r_step']
    if call.get('print_err'):
        kw['print_err'] = True
    names = list(call['names']) if call.get('names') is not None else None
    with common.listing(call.get('listing')), common.quiet():
        res = oq.read_rwms(path, fs['prefix'], version=fs['version'], names=names, **kw)
    return {irw: o for irw, o in enumerate(res)}
