"""openQCD ms.dat (gradient-flow observables Wsl, Ysl, Qsl) and sfqcd gfms.dat files: writers, independent parsers,
expectation builders and the calls into pyerrors.input.openQCD (_extract_flowed_energy_density, extract_t0/w0,
read_qtop, read_gf_coupling).

ms.dat   (little endian):  dn, nn, tmax (int) | eps (double) | records
         record: nc (int) | Wsl[(nn+1)*tmax] | Ysl[(nn+1)*tmax] | Qsl[(nn+1)*tmax]   (doubles, flow index major: [n*tmax + x0])
gfms.dat (little endian):  zthfl, ncs, tmax (int) | L, L, L (int) | tol, cmax (double) | records
         record: traj (int) | for j in 0..ncs: for i in 0..8*nfl-1: obs[tmax] doubles      (nfl = 2 if zthfl == 2 else 1;
         observable i of the Zeuthen flow at 0..7, of the Wilson flow at 8..15)

fs (plain data)
  ms  : {'fmt': 'ms', 'prefix', 'dn', 'nn', 'tmax', 'eps', 'L', 'seed', 'shape': 'random' | ['t0', t0star],
         'reps': [{'r', 'first', 'spacing', 'n'}], 'extra': [...]}
  gfms: {'fmt': 'gfms', 'prefix', 'zthfl': 2, 'ncs', 'tmax', 'L', 'tol', 'cmax', 'seed', 'reps': [...], 'extra': [...]}
call (plain data): {'what': 'E' | 't0' | 'w0' | 'qtop' | 'gf', 'files', 'names', 'r_start', 'r_stop', 'r_step', 'listing', ...}
"""
import math
import struct

import numpy as np

from vlib.formats import common

SAMPLE_MS = '/repo/tests/data/openqcd_test/openqcd2r1.ms.dat'
SAMPLE_GFMS = '/repo/tests/data/openqcd_test/sfqcdr1.gfms.dat'

NORMDICT_L = [4, 6, 8, 10, 12, 14, 16, 20, 24, 28, 32, 40, 48, 64]
NORM = {4: 0.012341170468270, 6: 0.010162691462430, 8: 0.009031614807931, 10: 0.008744966371393}   # 1607.06423, as documented


def filename(fs, rep):
    return '%sr%d.%s.dat' % (fs['prefix'], rep['r'], 'ms' if fs['fmt'] == 'ms' else 'gfms')


def stored_cfgs(rep):
    return [rep['first'] + rep['spacing'] * i for i in range(rep['n'])]


# ------------------------------------------------------------------------------------------------------
# ms.dat

def ms_record(fs, rep, nc):
    n1, tm = fs['nn'] + 1, fs['tmax']
    W = common.values(fs['seed'], rep['r'], nc, 'W', n1 * tm, 0.0, 5.0)
    Q = common.values(fs['seed'], rep['r'], nc, 'Q', n1 * tm, -1.0, 1.0)
    u = common.values(fs['seed'], rep['r'], nc, 'Y', n1 * tm, -1.0, 1.0)
    shape = fs.get('shape', 'random')
    if shape == 'random':
        Y = 3.0 * u
    else:
        # smooth data with a zero crossing from below at flow time t0s:
        #   't0': t^2 E = 0.3 t / t0s           'w0': t^2 E = 0.15 (t / t0s)^2, i.e. t d/dt (t^2 E) = 0.3 (t / t0s)^2
        t0s = float(shape[1])
        Y = np.empty(n1 * tm)
        for n in range(n1):
            t = n * fs['dn'] * fs['eps']
            if shape[0] == 'w0':
                base = 0.15 / t0s ** 2
            else:
                base = 0.3 / (t0s * t) if n > 0 else 1.0
            Y[n * tm:(n + 1) * tm] = fs['L'] ** 3 * base * (1.0 + 0.05 * u[n * tm:(n + 1) * tm])
    return {'nc': nc, 'W': W, 'Y': Y, 'Q': Q}


def ms_pack_header(dn, nn, tmax, eps):
    return struct.pack('<iii', dn, nn, tmax) + struct.pack('<d', eps)


def ms_pack_record(rec):
    n = len(rec['W'])
    return (struct.pack('<i', rec['nc']) + struct.pack('<%dd' % n, *rec['W']) + struct.pack('<%dd' % n, *rec['Y'])
            + struct.pack('<%dd' % n, *rec['Q']))


def ms_pack_file(dn, nn, tmax, eps, records):
    head = ms_pack_header(dn, nn, tmax, eps)
    parts, ext, pos = [head], [], len(head)
    for rec in records:
        r = ms_pack_record(rec)
        ext.append((pos, pos + len(r), rec['nc']))
        pos += len(r)
        parts.append(r)
    return b''.join(parts), len(head), ext


def ms_parse_file(data):
    dn, nn, tmax = struct.unpack_from('<iii', data, 0)
    eps, = struct.unpack_from('<d', data, 12)
    pos = 20
    n = (nn + 1) * tmax
    recs = []
    while pos < len(data):
        nc, = struct.unpack_from('<i', data, pos)
        pos += 4
        arrs = []
        for k in range(3):
            arrs.append(np.array(struct.unpack_from('<%dd' % n, data, pos)))
            pos += 8 * n
        recs.append({'nc': nc, 'W': arrs[0], 'Y': arrs[1], 'Q': arrs[2]})
    assert pos == len(data)
    return dn, nn, tmax, eps, recs


# ------------------------------------------------------------------------------------------------------
# gfms.dat

def gf_record(fs, rep, traj):
    nfl = 2 if fs['zthfl'] == 2 else 1
    n = (fs['ncs'] + 1) * 8 * nfl * fs['tmax']
    return {'traj': traj, 'obs': common.values(fs['seed'], rep['r'], traj, 'gf', n, -1.0, 1.0)}


def gf_pack_header(zthfl, ncs, tmax, L, tol, cmax):
    return struct.pack('<iii', zthfl, ncs, tmax) + struct.pack('<iii', L, L, L) + struct.pack('<dd', tol, cmax)


def gf_pack_file(zthfl, ncs, tmax, L, tol, cmax, records):
    head = gf_pack_header(zthfl, ncs, tmax, L, tol, cmax)
    parts, ext, pos = [head], [], len(head)
    for rec in records:
        r = struct.pack('<i', rec['traj']) + struct.pack('<%dd' % len(rec['obs']), *rec['obs'])
        ext.append((pos, pos + len(r), rec['traj']))
        pos += len(r)
        parts.append(r)
    return b''.join(parts), len(head), ext


def gf_parse_file(data):
    zthfl, ncs, tmax = struct.unpack_from('<iii', data, 0)
    Ls = struct.unpack_from('<iii', data, 12)
    assert Ls[0] == Ls[1] == Ls[2]
    tol, cmax = struct.unpack_from('<dd', data, 24)
    nfl = 2 if zthfl == 2 else 1
    n = (ncs + 1) * 8 * nfl * tmax
    pos = 40
    recs = []
    while pos < len(data):
        traj, = struct.unpack_from('<i', data, pos)
        recs.append({'traj': traj, 'obs': np.array(struct.unpack_from('<%dd' % n, data, pos + 4))})
        pos += 4 + 8 * n
    assert pos == len(data)
    return zthfl, ncs, tmax, Ls[0], tol, cmax, recs


def gf_value(fs, rec, j, i, x0):
    nfl = 2 if fs['zthfl'] == 2 else 1
    return rec['obs'][(j * 8 * nfl + i) * fs['tmax'] + x0]


def self_check():
    out = {}
    data = open(SAMPLE_MS, 'rb').read()
    dn, nn, tmax, eps, recs = ms_parse_file(data)
    again, hl, ext = ms_pack_file(dn, nn, tmax, eps, recs)
    assert again == data, 'ms.dat writer does not reproduce the sample'
    out['ms'] = {'bytes': len(data), 'records': len(recs), 'dn': dn, 'nn': nn, 'tmax': tmax, 'eps': eps}
    data = open(SAMPLE_GFMS, 'rb').read()
    zthfl, ncs, tmax, L, tol, cmax, recs = gf_parse_file(data)
    again, hl, ext = gf_pack_file(zthfl, ncs, tmax, L, tol, cmax, recs)
    assert again == data, 'gfms.dat writer does not reproduce the sample'
    out['gfms'] = {'bytes': len(data), 'records': len(recs), 'zthfl': zthfl, 'ncs': ncs, 'tmax': tmax, 'L': L, 'cmax': cmax}
    return out


# ------------------------------------------------------------------------------------------------------

def build(fs):
    out = common.FileSet()
    for i, rep in enumerate(fs['reps']):
        if fs['fmt'] == 'ms':
            recs = [ms_record(fs, rep, c) for c in stored_cfgs(rep)]
            data, hl, ext = ms_pack_file(fs['dn'], fs['nn'], fs['tmax'], fs['eps'], recs)
        else:
            recs = [gf_record(fs, rep, c) for c in stored_cfgs(rep)]
            data, hl, ext = gf_pack_file(fs['zthfl'], fs['ncs'], fs['tmax'], fs['L'], fs['tol'], fs['cmax'], recs)
        out.add(filename(fs, rep), data, hl, ext, i)
    for j, name in enumerate(fs.get('extra', [])):
        out.add(name, b'\x03\x00\x00\x00' + bytes(range(29 + j)))
    return out


def normalise_E(stored, assume_thermalization=True):
    """_extract_flowed_energy_density: number // spacing; shifted so that the first one is 1 if it would be larger
    ("assume thermalization", default True)."""
    d = stored[-1] - stored[-2]
    c = [s // d for s in stored]
    if assume_thermalization and c[0] > 1:
        c = [x - (c[0] - 1) for x in c]
    return c


def normalise_Q(stored, dtr_cnfg=1):
    """_read_flow_obs: trajectory // steps // dtr_cnfg, shifted to start at 1 if larger (warning)."""
    steps = stored[1] - stored[0]
    c = [s // steps // dtr_cnfg for s in stored]
    if c[0] > 1:
        c = [x - (c[0] - 1) for x in c]
    return c


def auto_name(fs, rep):
    return '%s|r%d' % (fs['prefix'], rep['r'])


def file_order(fs, call):
    if call.get('files') is not None:
        return list(call['files'])
    return sorted(range(len(fs['reps'])), key=lambda i: fs['reps'][i]['r'])


def _selection(cfgs, call, pos):
    a = call['r_start'][pos] if call.get('r_start') is not None else None
    b = call['r_stop'][pos] if call.get('r_stop') is not None else None
    ia = cfgs.index(a) if a else 0
    ib = cfgs.index(b) if b is not None else len(cfgs) - 1
    return list(range(ia, ib + 1, call.get('r_step') or 1))


def flow_times(fs):
    return [n * fs['dn'] * fs['eps'] for n in range(fs['nn'] + 1)]


def index_aim(fs, c):
    if fs['fmt'] == 'ms':
        return round((c * fs['L']) ** 2 / 8 / fs['eps'] / fs['dn'])
    return round(c / (fs['cmax'] / fs['ncs']))


def expected(fs, call, limit=None):
    """-> {key: {name: {cfg: number}}}, key = flow index n for 'E', 'Q' for qtop, 'gf' for the coupling.
    Also returns under '__scale__' the magnitude of the summed terms per key (tolerance scale)."""
    what = call['what']
    order = file_order(fs, call)
    out = {}
    scale = {}
    for pos, i in enumerate(order):
        rep = fs['reps'][i]
        stored = stored_cfgs(rep)
        if limit and i in limit:
            stored = stored[:limit[i]]
        name = call['names'][pos] if call.get('names') is not None else auto_name(fs, rep)
        if what in ('E', 't0', 'w0'):
            cfgs = normalise_E(stored, call.get('assume_thermalization', True))
            sel = _selection(cfgs, call, pos)
            xmin, tm = call['xmin'], fs['tmax']
            arr = 'W' if call.get('plaquette') else 'Y'
            recs = {k: ms_record(fs, rep, stored[k]) for k in sel}
            for n in range(fs['nn'] + 1):
                d = {}
                for k in sel:
                    x = recs[k][arr][n * tm + xmin:n * tm + tm - xmin]
                    d[cfgs[k]] = math.fsum(x) / len(x) / fs['L'] ** 3
                    scale[n] = max(scale.get(n, 0.0), float(np.max(np.abs(x))) / fs['L'] ** 3)
                out.setdefault(n, {})[name] = d
        elif what == 'qtop' and fs['fmt'] == 'ms':
            cfgs = normalise_Q(stored)
            sel = _selection(cfgs, call, pos)
            ia, tm = index_aim(fs, call['c']), fs['tmax']
            d = {}
            for k in sel:
                x = ms_record(fs, rep, stored[k])['Q'][ia * tm:(ia + 1) * tm]
                q = math.fsum(x)
                d[cfgs[k]] = float(round(q)) if call.get('integer_charge') else q
                scale['Q'] = max(scale.get('Q', 0.0), float(np.sum(np.abs(x))))
            out.setdefault('Q', {})[name] = d
        elif what == 'qtop':
            cfgs = normalise_Q(stored)
            sel = _selection(cfgs, call, pos)
            j = index_aim(fs, call['c'])
            iobs = 0 if call.get('Zeuthen_flow') else 8
            d = {}
            for k in sel:
                rec = gf_record(fs, rep, stored[k])
                x = [gf_value(fs, rec, j, iobs, x0) for x0 in range(fs['tmax'])]
                q = math.fsum(x)
                d[cfgs[k]] = float(round(q)) if call.get('integer_charge') else q
                scale['Q'] = max(scale.get('Q', 0.0), float(np.sum(np.abs(x))))
            out.setdefault('Q', {})[name] = d
        elif what == 'gf':
            cfgs = normalise_Q(stored)
            sel = _selection(cfgs, call, pos)
            j = index_aim(fs, 0.3)
            t = (0.3 * fs['L']) ** 2 / 8
            x0 = int(fs['tmax'] / 2)
            d = {}
            for k in sel:
                rec = gf_record(fs, rep, stored[k])
                plaq = gf_value(fs, rec, j, 6, x0)
                c2x1 = gf_value(fs, rec, j, 7, x0)
                d[cfgs[k]] = t * t * (5 / 3 * plaq - 1 / 12 * c2x1) / NORM[fs['L']]
                scale['gf'] = max(scale.get('gf', 0.0), t * t * (5 / 3 * abs(plaq) + abs(c2x1) / 12) / NORM[fs['L']])
            out.setdefault('gf', {})[name] = d
        else:
            raise ValueError(what)
    out['__scale__'] = scale
    return out


def near_half_integer(fs, call):
    """True if some summed charge is within 1e-9 of a half integer (rounding to the nearest integer undecidable)."""
    c2 = dict(call)
    c2['integer_charge'] = False
    exp = expected(fs, c2)
    for name, d in exp['Q'].items():
        for v in d.values():
            if abs(abs(v - math.floor(v)) - 0.5) < 1e-9:
                return True
    return False


def _common_kwargs(fs, call):
    kw = {}
    if call.get('files') is not None:
        kw['files'] = [filename(fs, fs['reps'][i]) for i in call['files']]
    if call.get('names') is not None:
        kw['names'] = list(call['names'])
    for k in ('r_start', 'r_stop'):
        if call.get(k) is not None:
            kw[k] = list(call[k])
    return kw


def run(path, fs, call):
    """-> {key: Obs} with the keys of expected(); for 't0'/'w0' the single key is the name of the scale."""
    import pyerrors.input.openQCD as oq
    kw = _common_kwargs(fs, call)
    what = call['what']
    with common.listing(call.get('listing')), common.quiet():
        if what in ('E', 't0', 'w0'):
            if call.get('r_step') is not None:
                kw['r_step'] = call['r_step']
            if call.get('plaquette'):
                kw['plaquette'] = True
            if 'assume_thermalization' in call:
                kw['assume_thermalization'] = call['assume_thermalization']
            if what == 'E':
                res = oq._extract_flowed_energy_density(path, fs['prefix'], call['dtr_read'], call['xmin'], fs['L'], **kw)
                keys = sorted(res)
                return {n: res[k] for n, k in enumerate(keys)}, keys
            fn = oq.extract_t0 if what == 't0' else oq.extract_w0
            return {what: fn(path, fs['prefix'], call['dtr_read'], call['xmin'], fs['L'], fit_range=call['fit_range'], **kw)}, None
        if what == 'qtop':
            for k in ('integer_charge', 'steps'):
                if call.get(k) is not None:
                    kw[k] = call[k]
            if fs['fmt'] == 'ms':
                return {'Q': oq.read_qtop(path, fs['prefix'], call['c'], version='openQCD', L=fs['L'], **kw)}, None
            if call.get('Zeuthen_flow') is not None:
                kw['Zeuthen_flow'] = call['Zeuthen_flow']
            if call.get('give_L'):
                kw['L'] = fs['L']
            return {'Q': oq.read_qtop(path, fs['prefix'], call['c'], version='sfqcd', **kw)}, None
        if what == 'gf':
            return {'gf': oq.read_gf_coupling(path, fs['prefix'], 0.3, **kw)}, None
    raise ValueError(what)
