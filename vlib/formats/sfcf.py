"""sfcf correlator files (text), output format of sfcf version 2.x in the three layouts the reader supports:
  'o' separate : <path>/<prefix>r<k>/cfg<N>/<name>          one file per configuration and correlator name
  'c' compact  : <path>/<prefix>r<k>/<prefix>r<k>_n<N>      one file per configuration with all correlators
  'a' appended : <path>/<prefix>r<k>.<name>                 one file per replica and correlator name, one [run] per configuration
                                                            (configuration number in "gauge_name  /<prefix>r<k>_n<N>")
A file is a sequence of runs; a run is "[run]", a blank line, header lines "key<pad to 12>value", a blank line, and
correlator blocks: "[correlator]", blank line, fields "key<pad to 10>value" (name, quarks, offset, wf, and wf_2 for
boundary-to-boundary types), the line "corr_t" (bi, bib: rows "%3d %+.16e %+.16e" = t, re, im) or "corr" (bb: one row
"%+.16e %+.16e"), a blank line.

Model used by the parser and the writer:
  run   = {'header': [(key, value), ...], 'corrs': [block, ...]}
  block = {'fields': [(key, value), ...], 'kind': 'corr_t' | 'corr', 'rows': [(t | None, 're text', 'im text'), ...]}

fs   {'fmt': 'sfcf', 'layout': 'o'|'c'|'a', 'prefix', 'seed', 'block_order': mode,
      'corrs': [{'name', 'type': 'bi'|'bb'|'bib', 'T', 'quarks', 'offsets': [...], 'wfs': [...], 'wf2s': [...]}],
      'reps': [{'r', 'cfgs': [...]}], 'extra': [...]}
call {'name', 'quarks', 'noffset', 'wf', 'wf2', 'im': bool, 'replica': None | [indices into reps], 'names': None | [...],
      'ens_name': None | str, 'files': None | {'kind': 'flat', 'cfgs': [...]} | {'kind': 'per', 'cfgs': [[...] per replica]}
      (separate / compact layout), 'afiles': None | [indices into reps] (appended layout: files= lists the replica files),
      'listing': mode, 'multi': None | {'names', 'quarks', 'offsets', 'wfs', 'wf2s', 'keyed_out'}}
"""
import os
import re

from vlib.formats import common

SAMPLE_ROOT = '/repo/tests/data/sfcf_test'
SAMPLE_FILES = ['data_o/test_r0/cfg1/f_A', 'data_o/test_r0/cfg1/f_1', 'data_o/test_r0/cfg1/F_V0',
                'data_c/data_c_r0/data_c_r0_n1',
                'data_a/data_a_r0.f_A', 'data_a/data_a_r0.f_1', 'data_a/data_a_r0.F_V0']

NUM = '%+.16e'


# ------------------------------------------------------------------------------------------------------
# text <-> model

def render_block(b):
    out = ['[correlator]\n', '\n']
    for k, v in b['fields']:
        out.append('%-10s%s\n' % (k, v))
    out.append(b['kind'] + '\n')
    for t, re_, im_ in b['rows']:
        if t is None:
            out.append('%s %s\n' % (re_, im_))
        else:
            out.append('%3d %s %s\n' % (t, re_, im_))
    out.append('\n')
    return ''.join(out)


def render_run(run):
    out = ['[run]\n', '\n']
    for k, v in run['header']:
        out.append('%-12s%s\n' % (k, v))
    out.append('\n')
    for b in run['corrs']:
        out.append(render_block(b))
    return ''.join(out)


def render(runs):
    return ''.join(render_run(r) for r in runs)


def parse(text):
    """Independent line-based parser of the sfcf output format -> list of runs."""
    lines = text.split('\n')
    assert lines[-1] == ''
    lines = lines[:-1]
    runs = []
    i = 0
    cur = None
    while i < len(lines):
        ln = lines[i]
        if ln == '[run]':
            cur = {'header': [], 'corrs': []}
            runs.append(cur)
            assert lines[i + 1] == ''
            i += 2
            while lines[i] != '':
                m = re.match(r'^(\S+)\s+(.*)$', lines[i])
                cur['header'].append((m.group(1), m.group(2)))
                i += 1
            i += 1
        elif ln == '[correlator]':
            b = {'fields': [], 'kind': None, 'rows': []}
            cur['corrs'].append(b)
            assert lines[i + 1] == ''
            i += 2
            while lines[i] not in ('corr_t', 'corr'):
                m = re.match(r'^(\S+)\s+(.*)$', lines[i])
                b['fields'].append((m.group(1), m.group(2)))
                i += 1
            b['kind'] = lines[i]
            i += 1
            while i < len(lines) and lines[i] != '':
                tok = lines[i].split()
                if b['kind'] == 'corr_t':
                    assert len(tok) == 3
                    b['rows'].append((int(tok[0]), tok[1], tok[2]))
                else:
                    assert len(tok) == 2
                    b['rows'].append((None, tok[0], tok[1]))
                i += 1
            i += 1
        else:
            raise AssertionError('unexpected line %d: %r' % (i, ln))
    return runs


def self_check():
    """Field for field (in fact byte for byte): parse every sample, render it again, compare; and every number
    re-formatted with '%+.16e' must give back the text of the sample."""
    out = {}
    for rel in SAMPLE_FILES:
        text = open(os.path.join(SAMPLE_ROOT, rel)).read()
        runs = parse(text)
        assert render(runs) == text, 'sfcf writer does not reproduce %s' % rel
        nblocks = 0
        for r in runs:
            for b in r['corrs']:
                nblocks += 1
                for t, a, c in b['rows']:
                    assert NUM % float(a) == a and NUM % float(c) == c, (rel, a, c)
        out[rel] = {'runs': len(runs), 'blocks': nblocks, 'bytes': len(text)}
    return out


# ------------------------------------------------------------------------------------------------------
# synthetic sets

def rep_dir(fs, rep):
    return '%sr%d' % (fs['prefix'], rep['r'])


def blocks_of(corr):
    """Parameter tuples (offset, wf, wf2 | None) of one correlator name in file order."""
    out = []
    for off in corr['offsets']:
        for wf in corr['wfs']:
            if corr['type'] == 'bi':
                out.append((off, wf, None))
            else:
                for w2 in corr['wf2s']:
                    out.append((off, wf, w2))
    return out


def numbers(fs, rep, cfg, corr, off, wf, w2):
    """[(re text, im text)] * T: the stored numbers as they stand in the file."""
    T = 1 if corr['type'] == 'bb' else corr['T']
    v = common.values(fs['seed'], rep['r'], cfg, '%s/%s/%s/%s/%s' % (corr['name'], corr['quarks'], off, wf, w2), 2 * T, -700.0, 700.0)
    return [(NUM % v[2 * t], NUM % v[2 * t + 1]) for t in range(T)]


def make_block(fs, rep, cfg, corr, off, wf, w2):
    fields = [('name', corr['name']), ('quarks', corr['quarks']), ('offset', str(off)), ('wf', str(wf))]
    if corr['type'] != 'bi':
        fields.append(('wf_2', str(w2)))
    nums = numbers(fs, rep, cfg, corr, off, wf, w2)
    if corr['type'] == 'bb':
        return {'fields': fields, 'kind': 'corr', 'rows': [(None, nums[0][0], nums[0][1])]}
    return {'fields': fields, 'kind': 'corr_t', 'rows': [(t + 1, a, b) for t, (a, b) in enumerate(nums)]}


def make_header(fs, rep, cfg, data_name):
    return [('version', '2.1'), ('date', '2022-01-19 11:04:00 +0100'), ('host', 'node07'), ('dir', '/scratch/tmp'),
            ('user', 'nobody'), ('gauge_name', '/%s_n%d' % (rep_dir(fs, rep), cfg)), ('gauge_md5', '1ea28326e4090996111a320b8372811d'),
            ('param_name', 'sfcf_synth.in'), ('param_md5', 'd881e90d41188a33b8b0f1bd0bc53ea5'),
            ('param_hash', '686af5e712ee2902180f5428af94c6e7'), ('data_name', data_name)]


def compact_block_list(fs):
    """(corr, off, wf, w2) of all correlators in the order they stand in a compact file."""
    items = []
    for corr in fs['corrs']:
        for (off, wf, w2) in blocks_of(corr):
            items.append((corr, off, wf, w2))
    idx = common.permuted(['%04d' % i for i in range(len(items))], fs.get('block_order'))
    return [items[int(i)] for i in idx]


def build(fs):
    out = common.FileSet()
    lay = fs['layout']
    for i, rep in enumerate(fs['reps']):
        rd = rep_dir(fs, rep)
        if lay == 'o':
            for cfg in rep['cfgs']:
                for corr in fs['corrs']:
                    run = {'header': make_header(fs, rep, cfg, './out/data_of_' + corr['name']),
                           'corrs': [make_block(fs, rep, cfg, corr, *p) for p in blocks_of(corr)]}
                    data = render([run]).encode()
                    out.add('%s/cfg%d/%s' % (rd, cfg, corr['name']), data, 0, [(0, len(data), cfg)], i)
        elif lay == 'c':
            for cfg in rep['cfgs']:
                run = {'header': make_header(fs, rep, cfg, './out/data_c'),
                       'corrs': [make_block(fs, rep, cfg, c, off, wf, w2) for (c, off, wf, w2) in compact_block_list(fs)]}
                data = render([run]).encode()
                out.add('%s/%s_n%d' % (rd, rd, cfg), data, 0, [(0, len(data), cfg)], i)
        else:
            for corr in fs['corrs']:
                parts, ext, pos = [], [], 0
                for cfg in rep['cfgs']:
                    run = {'header': make_header(fs, rep, cfg, './out/data_a_' + corr['name']),
                           'corrs': [make_block(fs, rep, cfg, corr, *p) for p in blocks_of(corr)]}
                    b = render([run]).encode()
                    ext.append((pos, pos + len(b), cfg))
                    pos += len(b)
                    parts.append(b)
                out.add('%s.%s' % (rd, corr['name']), b''.join(parts), 0, ext, i)
    for name in fs.get('extra', []):
        if name.endswith('/'):
            out.dirs.append(name.rstrip('/'))
        else:
            out.add(name, b'not a measurement\n')
    return out


def auto_name(fs, rep, call=None):
    """Replica name stated by the file / directory name; ens_name= replaces the ensemble part."""
    if call and call.get('ens_name'):
        return '%s|r%d' % (call['ens_name'], rep['r'])
    return '%s|r%d' % (fs['prefix'], rep['r'])


def version_string(fs):
    return '2.0' + {'o': '', 'c': 'c', 'a': 'a'}[fs['layout']]


def corr_by_name(fs, name):
    for c in fs['corrs']:
        if c['name'] == name:
            return c
    raise KeyError(name)


def replica_order(fs, call):
    """Indices into fs['reps'] in the order of the reader's replica list: always by replica number (the reader sorts the
    replica directories / files it found or was given with sort_names)."""
    sel = call['replica'] if call.get('replica') is not None else range(len(fs['reps']))
    if fs['layout'] == 'a' and call.get('afiles') is not None:
        sel = call['afiles']          # appended layout: files= is the list of replica files
    return sorted(sel, key=lambda i: fs['reps'][i]['r'])


def selected_cfgs(fs, call, pos, rep):
    f = call.get('files')
    if f is None or fs['layout'] == 'a':
        return list(rep['cfgs'])
    if f['kind'] == 'flat':
        return sorted(f['cfgs'])
    return sorted(f['cfgs'][pos])


def expected_one(fs, call, name, quarks, off, wf, w2, limit=None, drop=None):
    """-> {t: {replica name: {cfg: number}}}.  limit = {replica index: k}: only the first k configurations of that replica
    exist (appended layout, C18); drop = {replica index: [cfg, ...]}: these configurations are absent (per-configuration files)."""
    corr = corr_by_name(fs, name)
    T = 1 if corr['type'] == 'bb' else corr['T']
    part = 1 if call.get('im') else 0
    out = {t: {} for t in range(T)}
    for pos, i in enumerate(replica_order(fs, call)):
        rep = fs['reps'][i]
        cfgs = selected_cfgs(fs, call, pos, rep)
        if limit and i in limit:
            keep = set(rep['cfgs'][:limit[i]])
            cfgs = [c for c in cfgs if c in keep]
        if drop and i in drop:
            cfgs = [c for c in cfgs if c not in set(drop[i])]
        rname = call['names'][pos] if call.get('names') is not None else auto_name(fs, rep, call)
        w2eff = None if corr['type'] == 'bi' else w2
        nums = {c: numbers(fs, rep, c, corr, off, wf, w2eff) for c in cfgs}
        for t in range(T):
            out[t][rname] = {c: float(nums[c][t][part]) for c in cfgs}
    return out


def _kwargs(fs, call):
    kw = {}
    if call.get('im'):
        kw['im'] = True
    if call.get('names') is not None:
        kw['names'] = list(call['names'])
    if call.get('ens_name'):
        kw['ens_name'] = call['ens_name']
    if fs['layout'] == 'a' and call.get('afiles') is not None:
        kw['files'] = ['%s.%s' % (rep_dir(fs, fs['reps'][i]), call['name']) for i in call['afiles']]
    if call.get('replica') is not None:
        if fs['layout'] == 'a':
            # appended layout: the replica list holds the file names of all requested correlator names
            names = call['multi']['names'] if call.get('multi') else [call['name']]
            kw['replica'] = ['%s.%s' % (rep_dir(fs, fs['reps'][i]), n) for i in call['replica'] for n in names]
        else:
            kw['replica'] = [rep_dir(fs, fs['reps'][i]) for i in call['replica']]
    f = call.get('files')
    if f is not None and fs['layout'] != 'a':
        order = replica_order(fs, call)

        def fname(i, c):
            rd = rep_dir(fs, fs['reps'][i])
            return 'cfg%d' % c if fs['layout'] == 'o' else '%s_n%d' % (rd, c)
        if f['kind'] == 'flat':
            # one list for all replicas: only possible in the separate layout (directory names do not carry the replica)
            kw['files'] = ['cfg%d' % c for c in f['cfgs']]
        else:
            kw['files'] = [[fname(i, c) for c in f['cfgs'][pos]] for pos, i in enumerate(order)]
    return kw


def run(path, fs, call):
    """read_sfcf -> {t: Obs}"""
    import pyerrors.input.sfcf as sf
    corr = corr_by_name(fs, call['name'])
    kw = _kwargs(fs, call)
    with common.listing(call.get('listing')), common.quiet():
        res = sf.read_sfcf(path, fs['prefix'], call['name'], quarks=call['quarks'], corr_type=corr['type'],
                           noffset=call['noffset'], wf=call['wf'], wf2=call.get('wf2') or 0, version=version_string(fs),
                           silent=True, **kw)
    return {t: o for t, o in enumerate(res)}


def run_multi(path, fs, call):
    """read_sfcf_multi -> {(name, quarks, off, wf, w2): {t: Obs}}"""
    import pyerrors.input.sfcf as sf
    m = call['multi']
    kw = _kwargs(fs, call)
    types = [corr_by_name(fs, n)['type'] for n in m['names']]
    with common.listing(call.get('listing')), common.quiet():
        res = sf.read_sfcf_multi(path, fs['prefix'], list(m['names']), quarks_list=list(m['quarks']), corr_type_list=types,
                                 noffset_list=list(m['offsets']), wf_list=list(m['wfs']), wf2_list=list(m['wf2s']),
                                 version=version_string(fs), silent=True, keyed_out=bool(m.get('keyed_out')), **kw)
    out = {}
    for n, ty in zip(m['names'], types):
        for q in m['quarks']:
            for off in m['offsets']:
                for wf in m['wfs']:
                    for w2 in (m['wf2s'] if ty != 'bi' else [0]):
                        if m.get('keyed_out'):
                            lst = res['/'.join([n, q, str(off), str(wf), str(w2)])]
                        else:
                            lst = res[n][q][str(off)][str(wf)][str(w2)]
                        out[(n, q, off, wf, w2)] = {t: o for t, o in enumerate(lst)}
    return out
