"""Shared pieces of the synthetic measurement-file writers (C17 / C18).

FileSet      relative path -> bytes, plus for every file the byte extent of its header and of each
             complete record (what C18 needs to know where a cut falls).
values()     the stored numbers: a pure function of (seed, replica key, stored configuration number, block)
             so that every number identifies the replica and configuration it belongs to.
listing()    context manager that lets the reader modules see a permuted directory listing
             (os.walk / os.listdir as seen from pyerrors.input.*), nothing else in the process is touched.
compare()    {key: {replica name: {cfg: number}}} against the Obs returned by a reader.
"""
import contextlib
import hashlib
import io
import os
import random
import shutil
import tempfile

import numpy as np

from vlib.core import Violation, require

_GOLD, _M1, _M2 = np.uint64(0x9E3779B97F4A7C15), np.uint64(0xBF58476D1CE4E5B9), np.uint64(0x94D049BB133111EB)
_S30, _S27, _S31, _S11 = np.uint64(30), np.uint64(27), np.uint64(31), np.uint64(11)

TMPROOT ='/dev/shm' if os.path.isdir('/dev/shm') and os.access('/dev/shm', os.W_OK) else None


class FileSet:
    def __init__(self):
        self.files = {}      # relpath -> bytes
        self.header = {}     # relpath -> length of the header in bytes
        self.records = {}    # relpath -> [(start, end, stored_cfg), ...]  complete records in file order
        self.replica = {}    # relpath -> index of the replica (position in fs['reps']) the file belongs to
        self.dirs = []       # directories that must exist even if empty

    def add(self, relpath, data, header=0, records=(), replica=None):
        self.files[relpath] = bytes(data)
        self.header[relpath] = header
        self.records[relpath] = list(records)
        self.replica[relpath] = replica

    def write(self, root, cut=None):
        """Materialise below root.  cut = (relpath, nbytes) truncates that one file."""
        for d in self.dirs:
            os.makedirs(os.path.join(root, d), exist_ok=True)
        for rel, data in self.files.items():
            p = os.path.join(root, rel)
            os.makedirs(os.path.dirname(p), exist_ok=True)
            if cut is not None and cut[0] == rel:
                data = data[:cut[1]]
            with open(p, 'wb') as fh:
                fh.write(data)

    def complete_before(self, relpath, nbytes):
        """Number of complete records of relpath that lie entirely before byte offset nbytes."""
        return sum(1 for (s, e, c) in self.records[relpath] if e <= nbytes)

    def at_boundary(self, relpath, nbytes):
        return nbytes == self.header[relpath] or any(e == nbytes for (s, e, c) in self.records[relpath])


@contextlib.contextmanager
def tempdir(prefix='verif_fmt_'):
    d = tempfile.mkdtemp(prefix=prefix, dir=TMPROOT)
    try:
        yield d
    finally:
        shutil.rmtree(d, ignore_errors=True)


def values(seed, rep, cfg, block, n, lo=-1.0, hi=1.0):
    """n doubles in [lo, hi): a pure function of the arguments (one generator per record and block)."""
    h = hashlib.blake2b(('%s:%s:%s:%s' % (seed, rep, cfg, block)).encode(), digest_size=8).digest()
    # splitmix64 stream started at the hash (array arithmetic in uint64 wraps around, as intended)
    z = np.full(n, int.from_bytes(h, 'big'), dtype=np.uint64) + np.arange(1, n + 1, dtype=np.uint64) * _GOLD
    z = (z ^ (z >> _S30)) * _M1
    z = (z ^ (z >> _S27)) * _M2
    z = z ^ (z >> _S31)
    u = (z >> _S11).astype(np.float64) / 9007199254740992.0
    return lo + (hi - lo) * u


def permuted(names, mode):
    """Deterministic permutation of a listing.  mode: 'sorted' | 'reversed' | ['shuffle', seed]."""
    names = sorted(names)
    if mode == 'sorted' or mode is None:
        return names
    if mode == 'reversed':
        return names[::-1]
    rnd = random.Random(int(mode[1]))
    rnd.shuffle(names)
    return names


class _OsProxy:
    """Stands in for the os module inside a reader module: walk and listdir return permuted listings."""

    def __init__(self, real, mode):
        self._real = real
        self._mode = mode

    def __getattr__(self, k):
        return getattr(self._real, k)

    def walk(self, top, *a, **kw):
        for dirpath, dirnames, filenames in self._real.walk(top, *a, **kw):
            dn = permuted(dirnames, self._mode)
            fn = permuted(filenames, self._mode)
            dirnames[:] = dn
            yield dirpath, dn, fn

    def listdir(self, path='.'):
        return permuted(self._real.listdir(path), self._mode)


READER_MODULES = ('pyerrors.input.openQCD', 'pyerrors.input.sfcf', 'pyerrors.input.hadrons', 'pyerrors.input.utils',
                  'pyerrors.input.misc')


@contextlib.contextmanager
def listing(mode):
    import importlib
    mods = [importlib.import_module(m) for m in READER_MODULES]
    saved = [(m, m.os) for m in mods if hasattr(m, 'os')]
    try:
        for m, real in saved:
            m.os = _OsProxy(real, mode)
        yield
    finally:
        for m, real in saved:
            m.os = real


@contextlib.contextmanager
def quiet():
    with contextlib.redirect_stdout(io.StringIO()):
        yield


def chain_values(obs, name):
    return np.asarray(obs.deltas[name], dtype=float) + float(obs.r_values[name])


def compare_obs(obs, want, what, rtol=1e-14, scale=None):
    """want = {replica name: {cfg: number}} (insertion order irrelevant).  Names, configuration lists and every
    per-configuration number r_value + delta must agree.  Tolerance: rtol * (largest magnitude stored in the replica
    or, if given, the magnitude `scale` of the terms that were summed to obtain the numbers)."""
    got_names = list(obs.names)
    require(sorted(got_names) == sorted(want), '%s: replica names %r, the files state %r' % (what, got_names, sorted(want)))
    for name in sorted(want):
        cfgs = sorted(want[name])
        got_idl = [int(c) for c in obs.idl[name]]
        require(got_idl == cfgs, '%s: configurations of %s are %s, expected %s' % (what, name, _sh(got_idl), _sh(cfgs)))
        exp = np.array([want[name][c] for c in cfgs], dtype=float)
        got = chain_values(obs, name)
        require(len(got) == len(exp), '%s: %d numbers for %d configurations of %s' % (what, len(got), len(exp), name))
        sc = float(np.max(np.abs(exp))) if scale is None else float(scale)
        bad = np.where(~(np.abs(got - exp) <= rtol * sc + 1e-300))[0]
        if len(bad):
            i = int(bad[0])
            hint = _whose(got[i], want, rtol * sc)
            raise Violation('%s: %s config %d holds %r, the file stores %r%s (%d of %d configurations differ)'
                            % (what, name, cfgs[i], float(got[i]), float(exp[i]), hint, len(bad), len(exp)))


def _whose(v, want, tol):
    for name, d in want.items():
        for c, x in d.items():
            if abs(x - v) <= tol:
                return ' [that is the number of %s config %d]' % (name, c)
    return ''


def _sh(l, n=12):
    l = list(l)
    return str(l) if len(l) <= n else '%s...%s (%d)' % (str(l[:6])[:-1], str(l[-3:])[1:], len(l))


def restrict(want, limit):
    """limit = {replica name: k} keeps the first k configurations (in stored order = increasing) of that replica."""
    if not limit:
        return want
    out = {}
    for name, d in want.items():
        if name in limit:
            keep = sorted(d)[:limit[name]]
            out[name] = {c: d[c] for c in keep}
        else:
            out[name] = d
    return out
