"""ms5_xsf correlator files (<prefix>r<k>.ms5_xsf_<qc>.dat): writer, independent parser, expectation builder and the
call into pyerrors.input.openQCD.read_ms5_xsf.

Layout (little endian): kappa, csw, dF, zF (double) | tmax, bnd (int) | records
  record: cfg (int) | 10 boundary-to-bulk correlators gS gP gA gV gVt lA lV lVt lT lTt, each tmax complex numbers
          (re, im interleaved) | 2 boundary-to-boundary correlators g1 l1, one complex number each
Documented reduction: the selected correlator, real and imaginary part, per timeslice; bulk correlators come back as
complex Corr of length tmax, g1/l1 as a CObs.

fs   {'fmt': 'ms5', 'prefix', 'qc', 'tmax', 'seed', 'reps': [{'r', 'cfgs': [stored configuration numbers]}], 'extra': [...]}
call {'corr', 'files': None | [indices into reps], 'names': None | [...], 'idl': None | [[cfg...] per replica of the file list],
      'listing': mode}
"""
import struct

import numpy as np

from vlib.formats import common

SAMPLES = ['/repo/tests/data/openqcd_test/ms5_xsf_T24L16r%d.ms5_xsf_dd.dat' % k for k in (1, 2, 3)]
BI = ["gS", "gP", "gA", "gV", "gVt", "lA", "lV", "lVt", "lT", "lTt"]
BB = ["g1", "l1"]


def filename(fs, rep):
    return '%sr%d.ms5_xsf_%s.dat' % (fs['prefix'], rep['r'], fs['qc'])


def record_data(fs, rep, cfg):
    return {'cfg': cfg, 'data': common.values(fs['seed'], rep['r'], cfg, 'x', 2 * fs['tmax'] * 10 + 4, -2.0, 2.0)}


def pack_header(kappa, csw, dF, zF, tmax, bnd):
    return struct.pack('<dddd', kappa, csw, dF, zF) + struct.pack('<ii', tmax, bnd)


def pack_file(head, records):
    parts, ext, pos = [head], [], len(head)
    for rec in records:
        r = struct.pack('<i', rec['cfg']) + struct.pack('<%dd' % len(rec['data']), *rec['data'])
        ext.append((pos, pos + len(r), rec['cfg']))
        pos += len(r)
        parts.append(r)
    return b''.join(parts), len(head), ext


def parse_file(data):
    kappa, csw, dF, zF = struct.unpack_from('<dddd', data, 0)
    tmax, bnd = struct.unpack_from('<ii', data, 32)
    n = 2 * tmax * 10 + 4
    pos = 40
    recs = []
    while pos < len(data):
        cfg, = struct.unpack_from('<i', data, pos)
        recs.append({'cfg': cfg, 'data': np.array(struct.unpack_from('<%dd' % n, data, pos + 4))})
        pos += 4 + 8 * n
    assert pos == len(data)
    return (kappa, csw, dF, zF, tmax, bnd), recs


def self_check():
    out = {}
    for p in SAMPLES:
        data = open(p, 'rb').read()
        h, recs = parse_file(data)
        again, hl, ext = pack_file(pack_header(*h), recs)
        assert again == data, 'ms5_xsf writer does not reproduce %s' % p
        out[p.rsplit('/', 1)[1]] = {'bytes': len(data), 'records': len(recs), 'tmax': h[4]}
    return out


def build(fs):
    out = common.FileSet()
    head = pack_header(0.13, 1.0, 0.5, 1.0, fs['tmax'], 0)
    for i, rep in enumerate(fs['reps']):
        data, hl, ext = pack_file(head, [record_data(fs, rep, c) for c in rep['cfgs']])
        out.add(filename(fs, rep), data, hl, ext, i)
    for j, name in enumerate(fs.get('extra', [])):
        out.add(name, b'\x01\x02\x03\x04' + bytes(range(31 + j)))
    return out


def auto_name(fs, rep):
    return '%s|r%d' % (fs['prefix'], rep['r'])


def file_order(fs, call):
    """Explicit `files` order if given; otherwise the replicas by number (callers only hand per-replica arguments
    without `files` when numeric and alphabetical order of the file names coincide)."""
    if call.get('files') is not None:
        return list(call['files'])
    return sorted(range(len(fs['reps'])), key=lambda i: fs['reps'][i]['r'])


def order_is_unambiguous(fs):
    names = [filename(fs, r) for r in fs['reps']]
    by_num = [n for _, n in sorted(zip([r['r'] for r in fs['reps']], names))]
    return by_num == sorted(names)


def component(fs, rec, corr, t, part):
    tm = fs['tmax']
    if corr in BI:
        return rec['data'][2 * tm * BI.index(corr) + 2 * t + part]
    return rec['data'][2 * tm * 10 + 2 * BB.index(corr) + part]


def expected(fs, call, limit=None):
    """-> {('re'|'im', t): {name: {cfg: number}}}"""
    corr = call['corr']
    nt = fs['tmax'] if corr in BI else 1
    order = file_order(fs, call)
    out = {(p, t): {} for p in ('re', 'im') for t in range(nt)}
    for pos, i in enumerate(order):
        rep = fs['reps'][i]
        cfgs = list(rep['cfgs'])
        if limit and i in limit:
            cfgs = cfgs[:limit[i]]
        if call.get('idl') is not None:
            want = set(call['idl'][pos])
            cfgs = [c for c in cfgs if c in want]
        name = call['names'][pos] if call.get('names') is not None else auto_name(fs, rep)
        recs = {c: record_data(fs, rep, c) for c in cfgs}
        for t in range(nt):
            out[('re', t)][name] = {c: component(fs, recs[c], corr, t, 0) for c in cfgs}
            out[('im', t)][name] = {c: component(fs, recs[c], corr, t, 1) for c in cfgs}
    return out


def run(path, fs, call):
    import pyerrors.input.openQCD as oq
    kw = {}
    if call.get('files') is not None:
        kw['files'] = [filename(fs, fs['reps'][i]) for i in call['files']]
    if call.get('names') is not None:
        kw['names'] = list(call['names'])
    if call.get('idl') is not None:
        kw['idl'] = [list(x) if call.get('idl_form') != 'range' or len(set(np.diff(x))) != 1
                     else range(x[0], x[-1] + 1, x[1] - x[0]) for x in call['idl']]
    with common.listing(call.get('listing')), common.quiet():
        res = oq.read_ms5_xsf(path, fs['prefix'], fs['qc'], call['corr'], **kw)
    out = {}
    if call['corr'] in BI and not (fs['tmax'] == 1 and not hasattr(res, 'content')):
        # (a bulk correlator of a tmax = 1 file comes back as a bare CObs: the numbers are judged all the same)
        content = res.content
        if len(content) != fs['tmax']:
            raise common.Violation('read_ms5_xsf returns %d timeslices, the file stores %d' % (len(content), fs['tmax']))
        for t, c in enumerate(content):
            out[('re', t)] = c[0].real
            out[('im', t)] = c[0].imag
    else:
        out[('re', 0)] = res.real
        out[('im', 0)] = res.imag
    return out
