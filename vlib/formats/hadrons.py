"""Hadrons hdf5 meson files <filestem>.<cfg>.h5: writer, independent reader (h5py), expectation builder and the calls into
pyerrors.input.hadrons.read_meson_hd5 / read_hd5.

No sample file ships with the repository; the layout is the one the reader documents and accesses:
  /<group>/<group>_<k>/corr   dataset of T records {re: f8, im: f8}
  attributes of /<group>/<group>_<k>: gamma_snk, gamma_src, ... each an array holding one byte string
The self-check therefore is a write / independent-read round trip only (no fidelity against a stored sample).

fs   {'fmt': 'hadrons', 'filestem', 'group': 'meson', 'T', 'seed', 'entries': [{'gamma_snk', 'gamma_src'}], 'cfgs': [...],
      'extra': [...]}
call {'how': 'meson' | 'gammas' | 'attrs' | 'int', 'entry': k, 'part': 'real'|'imag'|'complex', 'idl': None | [...],
      'idl_form': 'range'|'list', 'ens_id', 'listing': mode}
"""
import io

import numpy as np

from vlib.formats import common

CDT = np.dtype([('re', '<f8'), ('im', '<f8')])


def filename(fs, cfg):
    return '%s.%d.h5' % (fs['filestem'], cfg)


def entry_data(fs, cfg, k):
    v = common.values(fs['seed'], 'h', cfg, 'e%d' % k, 2 * fs['T'], -3.0, 3.0)
    return v[0::2], v[1::2]


def file_bytes(fs, cfg):
    import h5py
    bio = io.BytesIO()
    with h5py.File(bio, 'w') as f:
        g = f.create_group(fs['group'])
        for k, ent in enumerate(fs['entries']):
            e = g.create_group('%s_%d' % (fs['group'], k))
            re_, im_ = entry_data(fs, cfg, k)
            arr = np.empty(fs['T'], dtype=CDT)
            arr['re'] = re_
            arr['im'] = im_
            e.create_dataset('corr', data=arr)
            for a, v in ent.items():
                e.attrs.create(a, np.array([v.encode()], dtype='S%d' % max(1, len(v))))
    return bio.getvalue()


def read_back(data):
    import h5py
    out = {}
    with h5py.File(io.BytesIO(data), 'r') as f:
        for gname in f:
            for ename in f[gname]:
                d = f[gname][ename]['corr'][:]
                out[(gname, ename)] = (np.array(d['re']), np.array(d['im']), {a: v[0].decode() for a, v in f[gname][ename].attrs.items()})
    return out


def self_check():
    fs = {'fmt': 'hadrons', 'filestem': 'mes', 'group': 'meson', 'T': 3, 'seed': 1,
          'entries': [{'gamma_snk': 'Gamma5', 'gamma_src': 'Gamma5'}, {'gamma_snk': 'GammaT', 'gamma_src': 'Gamma5'}], 'cfgs': [4]}
    back = read_back(file_bytes(fs, 4))
    for k, ent in enumerate(fs['entries']):
        re_, im_, at = back[('meson', 'meson_%d' % k)]
        a, b = entry_data(fs, 4, k)
        assert np.array_equal(re_, a) and np.array_equal(im_, b) and at == ent
    return {'roundtrip': 'ok', 'sample': None}


def build(fs):
    out = common.FileSet()
    for cfg in fs['cfgs']:
        data = file_bytes(fs, cfg)
        out.add(filename(fs, cfg), data, 0, [(0, len(data), cfg)], 0)
    for name in fs.get('extra', []):
        out.add(name, b'junk')
    return out


def expected(fs, call, limit=None, drop=None):
    """-> {('re'|'im', t): {ens_id: {cfg: number}}};  drop = [cfg, ...]: these configurations are absent (C18)."""
    cfgs = [c for c in fs['cfgs'] if not drop or c not in set(drop)]
    if call.get('idl') is not None:
        want = set(call['idl'])
        cfgs = [c for c in cfgs if c in want]
    k = call['entry']
    parts = {'real': ['re'], 'imag': ['im'], 'complex': ['re', 'im']}[call.get('part', 'real')]
    out = {(p, t): {call['ens_id']: {}} for p in parts for t in range(fs['T'])}
    for c in cfgs:
        re_, im_ = entry_data(fs, c, k)
        for t in range(fs['T']):
            if 're' in parts:
                out[('re', t)][call['ens_id']][c] = float(re_[t])
            if 'im' in parts:
                out[('im', t)][call['ens_id']][c] = float(im_[t])
    return out


def run(path, fs, call):
    import pyerrors.input.hadrons as hd
    idl = None
    if call.get('idl') is not None:
        x = list(call['idl'])
        d = set(np.diff(x))
        idl = range(x[0], x[-1] + 1, x[1] - x[0]) if call.get('idl_form') == 'range' and len(d) == 1 else x
    ent = fs['entries'][call['entry']]
    with common.listing(call.get('listing')), common.quiet():
        if call['how'] == 'meson':
            res = hd.read_meson_hd5(path, fs['filestem'], call['ens_id'], meson='%s_%d' % (fs['group'], call['entry']), idl=idl)
        elif call['how'] == 'gammas':
            res = hd.read_meson_hd5(path, fs['filestem'], call['ens_id'], meson='%s_0' % fs['group'], idl=idl,
                                    gammas=(ent['gamma_snk'], ent['gamma_src']))
        elif call['how'] == 'attrs':
            res = hd.read_hd5(path + '/' + fs['filestem'], call['ens_id'], fs['group'], attrs=dict(ent), idl=idl,
                              part=call.get('part', 'real'))
        else:
            res = hd.read_hd5(path + '/' + fs['filestem'], call['ens_id'], fs['group'], attrs=call['entry'], idl=idl,
                              part=call.get('part', 'real'))
    out = {}
    part = call.get('part', 'real') if call['how'] in ('attrs', 'int') else 'real'
    if len(res.content) != fs['T']:
        raise common.Violation('hadrons reader returns %d timeslices, the files store %d' % (len(res.content), fs['T']))
    for t, c in enumerate(res.content):
        o = c[0]
        if part == 'complex':
            out[('re', t)] = o.real
            out[('im', t)] = o.imag
        else:
            out[({'real': 're', 'imag': 'im'}[part], t)] = o
    return out
