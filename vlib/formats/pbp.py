"""pbp.dat files (dS/dm_q, <bar psi psi> estimators) as read by pyerrors.input.misc.read_pbp: writer, expectation builder
and the call into the reader.  Used by checks/c18.py only (extension beyond the formats listed in C17).

No sample file and no test of this format ship with the repository; the layout is the one the reader itself states by
the way it reads (it is the layout of openQCD 1.6 ms1.dat files, native byte order, int = 4 bytes, double = 8 bytes):
  nrw | nfct[nrw] | nsrc[nrw] | records
  record: cfg | for irw: for ifct: first block of nsrc doubles (skipped by the reader), second block of nsrc doubles (data)
Reduction of the reader: value_irw(record) = prod_ifct mean_isrc data[irw][ifct][isrc].  The stored configuration number
is not used: the records of a file are attached to the configurations 1, 2, 3, ... in file order.  File names
<prefix>r<k><anything>.dat, replica name = text before the first '.', with '|' inserted in front of the first 'r'.

fs (plain data):   {'fmt': 'pbp', 'prefix' (without 'r' and '.'), 'nfct': [..], 'nsrc': [..], 'seed',
                    'reps': [{'r': replica number, 'first': first stored cfg, 'spacing': int, 'n': number of records}], 'extra': [..]}
call (plain data): {'print_err': bool, 'listing': mode}
"""
import math

from vlib.formats import common, openqcd_rwms as RW


def filename(fs, rep):
    return '%sr%d.pbp.dat' % (fs['prefix'], rep['r'])


def name_of(fs, rep):
    return '%s|r%d' % (fs['prefix'], rep['r'])


def record_data(fs, rep, cfg):
    """Numbers of one record; the data blocks are stored under the key 'lnr' so that the 1.6 packer of RW can be used.
    All data values are positive (no cancellation in the source average)."""
    out = {'cfg': cfg, 'sqn': [], 'lnr': []}
    for irw, (nf, ns) in enumerate(zip(fs['nfct'], fs['nsrc'])):
        out['sqn'].append(common.values(fs['seed'], rep['r'], cfg, 'pbp_first%d' % irw, nf * ns, 100.0, 2000.0).reshape(nf, ns))
        out['lnr'].append(common.values(fs['seed'], rep['r'], cfg, 'pbp_data%d' % irw, nf * ns, 0.5, 2.5).reshape(nf, ns))
    return out


def build(fs):
    out = common.FileSet()
    for i, rep in enumerate(fs['reps']):
        recs = [record_data(fs, rep, c) for c in RW.stored_cfgs(rep)]
        data, hl, ext = RW.pack_file('1.6', fs['nfct'], fs['nsrc'], recs)
        out.add(filename(fs, rep), data, hl, ext, i)
    for j, name in enumerate(fs.get('extra', [])):
        out.add(name, b'\x07\x00\x00\x00' + bytes(range(37 + j)))
    return out


def value(rec, irw):
    w = 1.0
    for x in rec['lnr'][irw]:
        w *= math.fsum(float(v) for v in x) / len(x)
    return w


def expected(fs, call, limit=None):
    """-> {irw: {name: {position 1..k: value}}}.  limit = {index into reps: k}: only the first k records of that file exist."""
    out = {irw: {} for irw in range(len(fs['nsrc']))}
    for i, rep in enumerate(fs['reps']):
        stored = RW.stored_cfgs(rep)
        if limit and i in limit:
            stored = stored[:limit[i]]
        recs = [record_data(fs, rep, c) for c in stored]
        for irw in out:
            out[irw][name_of(fs, rep)] = {k + 1: value(rec, irw) for k, rec in enumerate(recs)}
    return out


def run(path, fs, call):
    """Calls read_pbp; -> {irw: Obs}."""
    import pyerrors.input.misc as misc
    kw = {}
    if call.get('print_err'):
        kw['print_err'] = True
    with common.listing(call.get('listing')), common.quiet():
        res = misc.read_pbp(path, fs['prefix'], **kw)
    return {irw: o for irw, o in enumerate(res)}
