"""Hypothesis strategies producing plain-data (JSON-serialisable) case specifications.

Conventions
-----------
chain spec : {"name": "A|r1", "idl": [int...], "form": "list"|"range"|"array", "data": recipe}
recipe     : {"kind": "list", "x": [...]}                       (short chains, shrinks element-wise)
             {"kind": "white"|"ar1"|"const"|"alt"|"count", "seed": int, "mean": m, "sigma": s, "rho": r}
             (long chains: a pure function of the recipe, see build.samples)
cov spec   : {"name": "cvA", "cov": [[...]], "means": [...], "grad": [...]}
obs spec   : {"chains": [chain...], "cov": [cov...]}   (chains of several ensembles allowed: the
             observable is the sum of the single-ensemble observables plus the covariance part)
"""
from hypothesis import strategies as st

ENSEMBLES = ['A', 'B', 'AB', 'ens3', 'Z_1']
REPLICA_SUFFIX = ['r1', 'r2', 'r10', 'r03', 'x']
COVNAMES = ['cvA', 'cvB', 'sys']


def fl(lo, hi):
    return st.floats(min_value=lo, max_value=hi, allow_nan=False, allow_infinity=False, width=64)


# ----------------------------------------------------------------------------------------------
# configuration lists

def classify_idl(idl):
    d = set(b - a for a, b in zip(idl, idl[1:]))
    if len(d) == 1:
        return 'contig' if d == {1} else 'strided'
    if idl[-1] - idl[0] == (idl[1] - idl[0]) * (len(idl) - 1):
        return 'irregular_rangelike'
    return 'irregular'


@st.composite
def idl_list(draw, nmin=5, nmax=40, kinds=('contig', 'strided', 'irregular'), gap=None, start=None):
    """A strictly increasing configuration list on the grid start + gap*k.
    'irregular' lists contain at least one pair of neighbours at distance `gap` (so that the
    common spacing is well defined) and at least one hole."""
    n = draw(st.integers(nmin, nmax))
    if start is None:
        start = draw(st.one_of(st.integers(0, 3), st.integers(1, 2000), st.integers(9990, 10010)))
    g = gap if gap is not None else draw(st.sampled_from([1, 1, 1, 2, 3, 5]))
    kind = draw(st.sampled_from(list(kinds) + (['near_range'] if 'irregular' in kinds else [])))
    if kind == 'near_range':
        # an irregular list that agrees with a range in first element, first spacing, last element and length:
        # a strided range with a few interior points moved by one grid slot
        m = draw(st.integers(3, 5))     # >= 3 so that two neighbours moved towards each other stay distinct
        n = max(n, 6)
        out = [start + g * m * k for k in range(n)]
        moved = draw(st.lists(st.integers(2, n - 2), min_size=1, max_size=3, unique=True))
        for i in moved:
            out[i] += g * draw(st.sampled_from([-1, 1]))
        return out
    if kind == 'contig':
        return [start + g * k for k in range(n)]
    if kind == 'strided':
        m = draw(st.integers(2, 4))
        return [start + g * m * k for k in range(n)]
    inc = draw(st.lists(st.sampled_from([1, 1, 1, 2, 2, 3, 4]), min_size=n - 1, max_size=n - 1))
    j = draw(st.integers(0, n - 2))
    k = draw(st.integers(0, n - 3))
    if k >= j:
        k += 1
    inc[j] = 1
    if inc[k] == 1:
        inc[k] = draw(st.sampled_from([2, 3]))
    out = [start]
    for i in inc:
        out.append(out[-1] + g * i)
    return out


def idl_form():
    return st.sampled_from(['list', 'list', 'range', 'range1', 'array'])


# ----------------------------------------------------------------------------------------------
# data recipes

@st.composite
def recipe(draw, n, kinds=('white', 'ar1', 'const', 'alt', 'count', 'list'), mean=None, sigma=None,
           short=12):
    kind = draw(st.sampled_from(list(kinds)))
    m = draw(mean) if mean is not None else draw(st.one_of(fl(-3, 3), st.sampled_from([0.0, 1.0, -1.0, 2.5])))
    s = draw(sigma) if sigma is not None else draw(fl(0.01, 2.0))
    if kind == 'list':
        if n > short:
            kind = 'white'
        else:
            xs = draw(st.lists(fl(-1, 1), min_size=n, max_size=n))
            return {'kind': 'list', 'x': [m + s * x for x in xs]}
    r = {'kind': kind, 'seed': draw(st.integers(0, 2 ** 31 - 1)), 'mean': m, 'sigma': s}
    if kind == 'ar1':
        r['rho'] = draw(st.one_of(fl(-0.5, 0.97), st.sampled_from([0.5, 0.9, 0.97])))
    return r


# ----------------------------------------------------------------------------------------------
# names

@st.composite
def ensemble_names(draw, nmin=1, nmax=3):
    k = draw(st.integers(nmin, nmax))
    return draw(st.lists(st.sampled_from(ENSEMBLES), min_size=k, max_size=k, unique=True))


@st.composite
def replica_names(draw, ens, nmin=1, nmax=3, allow_bare=True):
    """Replica names of one ensemble.  A single replica may carry the bare ensemble name."""
    k = draw(st.integers(nmin, nmax))
    if k == 1 and allow_bare and draw(st.booleans()):
        return [ens]
    suf = draw(st.lists(st.sampled_from(REPLICA_SUFFIX), min_size=k, max_size=k, unique=True))
    out = [ens + '|' + s for s in suf]
    if k > 1 and allow_bare and draw(st.integers(0, 7)) == 0:
        out[0] = ens   # accepted by the constructor: a replica carrying the bare ensemble name
    if draw(st.integers(0, 9)) == 0:
        out[-1] = ens + '|' + ens + out[-1].split('|')[-1]     # the ensemble name occurs again inside the replica label
    return out


# ----------------------------------------------------------------------------------------------
# covariance inputs

@st.composite
def cov_pool(draw, nmax=2):
    """{name: {"cov": matrix, "means": [...]}} ; matrix = B B^T + eps*1 (PSD, well conditioned)."""
    names = draw(st.lists(st.sampled_from(COVNAMES), min_size=0, max_size=nmax, unique=True))
    pool = {}
    for nm in names:
        d = draw(st.integers(1, 3))
        B = [[draw(fl(-1, 1)) for _ in range(d)] for _ in range(d)]
        eps = draw(st.sampled_from([0.05, 0.3, 1.0]))
        cov = [[sum(B[i][k] * B[j][k] for k in range(d)) + (eps if i == j else 0.0) for j in range(d)] for i in range(d)]
        means = [draw(fl(-2, 2)) for _ in range(d)]
        pool[nm] = {'cov': cov, 'means': means}
    return pool


@st.composite
def cov_part(draw, pool, p_use=0.5):
    out = []
    for nm in sorted(pool):
        if draw(st.floats(0, 1)) < p_use:
            d = len(pool[nm]['means'])
            grad = [draw(st.one_of(fl(-2, 2), st.sampled_from([0.0, 1.0]))) for _ in range(d)]
            out.append({'name': nm, 'cov': pool[nm]['cov'], 'means': pool[nm]['means'], 'grad': grad})
    return out


# ----------------------------------------------------------------------------------------------
# single observables (C02, C03, C11-13, C19 ...)

@st.composite
def single_ensemble_chains(draw, ens, nmin=5, nmax=40, rep_max=3, kinds=('contig', 'strided', 'irregular'),
                           data_kinds=('white', 'ar1', 'const', 'alt', 'count', 'list'), mean=None, sigma=None,
                           common_gap=True, allow_bare=True):
    reps = draw(replica_names(ens, 1, rep_max, allow_bare=allow_bare))
    g = draw(st.sampled_from([1, 1, 1, 2, 3, 5])) if common_gap else None
    chains = []
    for r in reps:
        il = draw(idl_list(nmin, nmax, kinds=kinds, gap=g))
        chains.append({'name': r, 'idl': il, 'form': draw(idl_form()),
                       'data': draw(recipe(len(il), kinds=data_kinds, mean=mean, sigma=sigma))})
    if len(chains) > 1 and draw(st.integers(0, 4)) == 0:
        # sibling replicas: same first configuration, same last configuration and same length, holes in other places
        base = chains[0]['idl']
        incs = [b - a for a, b in zip(base, base[1:])]
        if len(set(incs)) > 1:
            perm = draw(st.permutations(incs))
            il = [base[0]]
            for i in perm:
                il.append(il[-1] + i)
            chains[1]['idl'] = il
            d = chains[1]['data']
            if d['kind'] == 'list':
                d = {'kind': 'white', 'seed': len(il), 'mean': d['x'][0], 'sigma': 0.5}
            chains[1]['data'] = d
    return chains


@st.composite
def obs_spec(draw, ens_max=3, rep_max=3, nmin=5, nmax=40, kinds=('contig', 'strided', 'irregular'),
             data_kinds=('white', 'ar1', 'const', 'alt', 'count', 'list'), with_cov=True, mean=None, sigma=None,
             allow_bare=True):
    enss = draw(ensemble_names(1, ens_max))
    chains = []
    for e in enss:
        chains += draw(single_ensemble_chains(e, nmin, nmax, rep_max, kinds, data_kinds, mean, sigma, allow_bare=allow_bare))
    cov = []
    if with_cov:
        pool = draw(cov_pool(2))
        cov = draw(cov_part(pool, 0.6))
    return {'chains': chains, 'cov': cov}


# ----------------------------------------------------------------------------------------------
# related layouts for operations between several observables (C01, C04, C05, C06, C10 ...)

@st.composite
def base_layout(draw, ens_max=2, rep_max=3, lmin=8, lmax=40, allow_bare=True):
    """ensemble -> replica -> base grid (start, gap, length)."""
    lay = {}
    for e in draw(ensemble_names(1, ens_max)):
        reps = draw(replica_names(e, 1, rep_max, allow_bare=allow_bare))
        g = draw(st.sampled_from([1, 1, 1, 2, 3]))
        lay[e] = {}
        for r in reps:
            start = draw(st.one_of(st.integers(0, 3), st.integers(1, 2000)))
            lay[e][r] = {'start': start, 'gap': g, 'len': draw(st.integers(lmin, lmax))}
    return lay


@st.composite
def grid_subset(draw, grid, nmin=5):
    """Subset (>= nmin points) of a base grid: full, window, stride or random mask."""
    pts = [grid['start'] + grid['gap'] * k for k in range(grid['len'])]
    L = len(pts)
    mode = draw(st.sampled_from(['full', 'full', 'window', 'stride', 'mask', 'near_range']))
    if mode == 'near_range' and L >= 3 * nmin + 1:
        m = draw(st.integers(3, max(3, (L - 1) // nmin)))
        idx = list(range(0, L, m))
        if len(idx) >= max(nmin, 5):
            moved = draw(st.lists(st.integers(2, len(idx) - 2), min_size=1, max_size=2, unique=True))
            for i in moved:
                idx[i] += draw(st.sampled_from([-1, 1]))
            return [pts[i] for i in idx]
    if mode == 'window' and L > nmin:
        a = draw(st.integers(0, L - nmin))
        b = draw(st.integers(a + nmin, L))
        return pts[a:b]
    if mode == 'stride' and L >= 2 * nmin:
        m = draw(st.integers(2, max(2, L // nmin)))
        off = draw(st.integers(0, m - 1))
        sub = pts[off::m]
        if len(sub) >= nmin:
            return sub
    if mode == 'mask' and L > nmin:
        drop = draw(st.lists(st.integers(0, L - 1), min_size=1, max_size=L - nmin, unique=True))
        ds = set(drop)
        return [p for i, p in enumerate(pts) if i not in ds]
    return pts


@st.composite
def related_obs_specs(draw, n_ops, ens_max=2, rep_max=3, lmin=8, lmax=40, with_cov=True, mean=None, sigma=None,
                      data_kinds=('white', 'ar1', 'count', 'list'), p_same=0.35, allow_bare=True,
                      full_replicas=False, same_ensembles=False):
    """n_ops observable specs living on subsets of one base layout (so that their configuration sets
    are identical / nested / overlapping / disjoint and replica subsets may be missing)."""
    lay = draw(base_layout(ens_max, rep_max, lmin, lmax, allow_bare=allow_bare))
    pool = draw(cov_pool(2)) if with_cov else {}
    specs = []
    ens_all = sorted(lay)
    for i in range(n_ops):
        if same_ensembles or len(ens_all) == 1:
            enss = ens_all
        else:
            enss = draw(st.lists(st.sampled_from(ens_all), min_size=1, max_size=len(ens_all), unique=True))
        chains = []
        for e in sorted(enss):
            reps = sorted(lay[e])
            if not full_replicas and len(reps) > 1 and draw(st.floats(0, 1)) < 0.4:
                reps = sorted(draw(st.lists(st.sampled_from(reps), min_size=1, max_size=len(reps) - 1, unique=True)))
            for r in reps:
                prev = None
                if i > 0 and draw(st.floats(0, 1)) < p_same:
                    for c in specs[0]['chains']:
                        if c['name'] == r:
                            prev = c['idl']
                if prev is not None and len(prev) > 6 and draw(st.integers(0, 3)) == 0:
                    k = draw(st.integers(5, len(prev) - 1))
                    prev = prev[:k] if draw(st.booleans()) else prev[-k:]
                il = prev if prev is not None else draw(grid_subset(lay[e][r]))
                chains.append({'name': r, 'idl': list(il), 'form': draw(idl_form()),
                               'data': draw(recipe(len(il), kinds=data_kinds,
                                                   mean=mean[i] if isinstance(mean, (list, tuple)) else mean,
                                                   sigma=sigma))})
        cov = draw(cov_part(pool, 0.4)) if pool else []
        specs.append({'chains': chains, 'cov': cov})
    return specs


def relation_labels(specs):
    """Labels describing how the configuration sets of operand 0 and the others relate."""
    labs = set()
    names = [set(c['name'] for c in s['chains']) for s in specs]
    ens = [set(n.split('|')[0] for n in ns) for ns in names]
    for i in range(1, len(specs)):
        if names[i] == names[0]:
            labs.add('same_replicas')
        elif ens[i].isdisjoint(ens[0]):
            labs.add('disjoint_ensembles')
        elif ens[i] & ens[0] and names[i] != names[0]:
            if any((n.split('|')[0] in ens[0]) and n not in names[0] for n in names[i]) or \
               any((n.split('|')[0] in ens[i]) and n not in names[i] for n in names[0]):
                labs.add('missing_replica')
            else:
                labs.add('partial_ensembles')
        for c in specs[i]['chains']:
            for c0 in specs[0]['chains']:
                if c['name'] == c0['name']:
                    a, b = set(c['idl']), set(c0['idl'])
                    if a == b:
                        labs.add('cfg_identical')
                    elif a < b or b < a:
                        labs.add('cfg_nested')
                    elif a & b:
                        labs.add('cfg_overlap')
                    else:
                        labs.add('cfg_disjoint')
    if any(s['cov'] for s in specs):
        cn = [set(c['name'] for c in s['cov']) for s in specs]
        shared = any(cn[i] & cn[j] for i in range(len(cn)) for j in range(i))
        labs.add('cov_shared' if shared else 'cov_unshared')
    return sorted(labs)


def needs_realign(specs):
    labs = relation_labels(specs)
    return any(x in labs for x in ('cfg_nested', 'cfg_overlap', 'cfg_disjoint', 'missing_replica'))


@st.composite
def precond_specs(draw, n_ops, mode, **kw):
    """Operands for which C01 promises independence of the bracketing:
    'same_replicas': every operand has every replica (configuration sets differ);
    'same_cfgs'    : per replica all operands that have it share one configuration list (replica subsets differ)."""
    if mode == 'same_replicas':
        return draw(related_obs_specs(n_ops, full_replicas=True, same_ensembles=True, **kw))
    ops = draw(related_obs_specs(n_ops, p_same=1.0, **kw))
    first = {}
    for sp in ops:
        for c in sp['chains']:
            if c['name'] in first:
                if len(first[c['name']]) != len(c['idl']) and c['data']['kind'] == 'list':
                    c['data'] = {'kind': 'white', 'seed': 1000 + len(c['idl']), 'mean': c['data']['x'][0], 'sigma': 0.1}
                c['idl'] = list(first[c['name']])
            else:
                first[c['name']] = list(c['idl'])
    return ops
